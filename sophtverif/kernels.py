"""Enumeration of every public Eulerian-grid kernel generator with its option combinations."""

from __future__ import annotations

import itertools

import numpy as np


def position_field(shape, dx, real_t):
    """Cell-centre coordinates in the simulator convention (x along the last axis), shape (dim,*shape)."""
    dim = len(shape)
    axes = [((np.arange(n) + 0.5) * dx).astype(real_t) for n in shape]
    grids = np.meshgrid(*axes, indexing="ij")
    return np.flipud(np.array(grids)) if dim > 0 else np.array(grids)


def generator_options():
    """[(generator_name, kwargs_without_common, needs)] ; needs in {None,'grid2','grid3','filter','ssprk3'}."""
    out = []
    ft = ["scalar", "vector"]
    tf = [True, False]
    # ---- 2-D
    out += [("gen_advection_flux_conservative_eno3_pyst_kernel_2d", {}, None)]
    out += [("gen_advection_timestep_euler_forward_conservative_eno3_pyst_kernel_2d", {}, None)]
    out += [("gen_brinkmann_penalise_pyst_kernel_2d", {"field_type": f}, None) for f in ft]
    out += [("gen_brinkmann_penalise_vs_fixed_val_pyst_kernel_2d", {"field_type": f}, None) for f in ft]
    out += [("gen_char_func_from_level_set_via_sine_heaviside_pyst_kernel_2d", {"blend_width": 0.3}, None)]
    out += [("gen_diffusion_flux_pyst_kernel_2d", {"reset_ghost_zone": r}, None) for r in tf]
    out += [("gen_diffusion_timestep_euler_forward_pyst_kernel_2d", {}, None)]
    out += [("gen_add_fixed_val_pyst_kernel_2d", {"field_type": f}, None) for f in ft]
    out += [("gen_elementwise_complex_product_pyst_kernel_2d", {}, None)]
    out += [("gen_elementwise_copy_pyst_kernel_2d", {}, None)]
    out += [("gen_elementwise_saxpby_pyst_kernel_2d", {"field_type": f}, None) for f in ft]
    out += [("gen_elementwise_sum_pyst_kernel_2d", {"field_type": f}, None) for f in ft]
    out += [("gen_set_fixed_val_at_boundaries_pyst_kernel_2d", {"width": w, "field_type": f}, "nofixed")
            for w in (1, 2, 3) for f in ft]
    out += [("gen_set_fixed_val_pyst_kernel_2d", {"field_type": f}, None) for f in ft]
    out += [("gen_inplane_field_curl_pyst_kernel_2d", {}, None)]
    out += [("gen_outplane_field_curl_pyst_kernel_2d", {"reset_ghost_zone": r}, None) for r in tf]
    out += [("gen_penalise_field_boundary_pyst_kernel_2d", {"width": w}, "grid2") for w in (0, 1, 2, 3, 4)]
    out += [("gen_update_vorticity_from_penalised_velocity_pyst_kernel_2d", {}, None)]
    out += [("gen_update_vorticity_from_velocity_forcing_pyst_kernel_2d", {}, None)]
    # ---- 3-D
    out += [("gen_advection_flux_conservative_eno3_pyst_kernel_3d", {}, None)]
    out += [("gen_advection_timestep_euler_forward_conservative_eno3_pyst_kernel_3d", {"field_type": f}, None) for f in ft]
    out += [("gen_brinkmann_penalise_pyst_kernel_3d", {"field_type": f}, None) for f in ft]
    out += [("gen_char_func_from_level_set_via_sine_heaviside_pyst_kernel_3d", {"blend_width": 0.3}, None)]
    out += [("gen_curl_pyst_kernel_3d", {"reset_ghost_zone": r}, None) for r in tf]
    out += [("gen_diffusion_flux_pyst_kernel_3d", {"field_type": f, "reset_ghost_zone": r}, None) for f in ft for r in tf]
    out += [("gen_diffusion_timestep_euler_forward_pyst_kernel_3d", {"field_type": f}, None) for f in ft]
    out += [("gen_divergence_pyst_kernel_3d", {"reset_ghost_zone": r}, None) for r in tf]
    out += [("gen_add_fixed_val_pyst_kernel_3d", {"field_type": f}, None) for f in ft]
    out += [("gen_elementwise_complex_product_pyst_kernel_3d", {}, None)]
    out += [("gen_elementwise_copy_pyst_kernel_3d", {}, None)]
    out += [("gen_elementwise_cross_product_pyst_kernel_3d", {}, None)]
    out += [("gen_elementwise_saxpby_pyst_kernel_3d", {"field_type": f}, None) for f in ft]
    out += [("gen_elementwise_sum_pyst_kernel_3d", {"field_type": f}, None) for f in ft]
    out += [("gen_set_fixed_val_at_boundaries_pyst_kernel_3d", {"width": w, "field_type": f}, "nofixed")
            for w in (1, 2) for f in ft]
    out += [("gen_set_fixed_val_pyst_kernel_3d", {"field_type": f}, None) for f in ft]
    out += [("gen_laplacian_filter_kernel_3d", {"filter_order": o, "field_type": f, "filter_type": t}, "filter")
            for o in (1, 2, 3) for f in ft for t in ("multiplicative", "convolution")]
    out += [("gen_penalise_field_boundary_pyst_kernel_3d", {"width": w, "field_type": f}, "grid3")
            for w in (0, 1, 2, 3) for f in ft]
    out += [("gen_update_vorticity_from_penalised_velocity_pyst_kernel_3d", {}, None)]
    out += [("gen_update_vorticity_from_velocity_forcing_pyst_kernel_3d", {}, None)]
    out += [("gen_vorticity_stretching_flux_pyst_kernel_3d", {}, None)]
    out += [("gen_vorticity_stretching_timestep_euler_forward_pyst_kernel_3d", {}, None)]
    out += [("gen_vorticity_stretching_timestep_ssprk3_pyst_kernel_3d", {}, "ssprk3")]
    return out


def build(gen_name, opts, needs, real_t, threads, shape=None, dx=None):
    """Call one generator.  Returns (callable, aux) where aux holds arrays the generator closed over."""
    import sopht.numeric.eulerian_grid_ops as spne

    gen = getattr(spne, gen_name)
    dim = 2 if gen_name.endswith("_2d") else 3
    if shape is None:
        shape = (8, 10) if dim == 2 else (6, 7, 8)
    if dx is None:
        dx = 1.0 / shape[-1]
    kw = dict(opts)
    kw["real_t"] = real_t
    kw["num_threads"] = threads
    aux = {"shape": tuple(shape), "dx": real_t(dx)}
    if needs in ("grid2", "grid3"):
        pos = position_field(shape, dx, real_t)
        aux["position_field"] = pos
        kw["dx"] = real_t(dx)
        kw["x_grid_field"] = pos[0]
        kw["y_grid_field"] = pos[1]
        if dim == 3:
            kw["z_grid_field"] = pos[2]
    elif needs == "filter":
        aux["filter_flux_buffer"] = np.zeros(shape, dtype=real_t)
        aux["field_buffer"] = np.zeros(shape, dtype=real_t)
        kw["filter_flux_buffer"] = aux["filter_flux_buffer"]
        kw["field_buffer"] = aux["field_buffer"]
    elif needs == "ssprk3":
        aux["midstep_buffer_vector_field"] = np.zeros((3, *shape), dtype=real_t)
        kw["midstep_buffer_vector_field"] = aux["midstep_buffer_vector_field"]
    return gen(**kw), aux


def build_all(real_t=np.float64, threads=False, skip_errors=True):
    out = {}
    errors = {}
    for gen_name, opts, needs in generator_options():
        key = (gen_name, tuple(sorted(opts.items())))
        try:
            out[key] = build(gen_name, opts, needs, real_t, threads)
        except Exception as e:  # noqa: BLE001
            if not skip_errors:
                raise
            errors[key] = e
    return out, errors


def public_generator_names():
    import sopht.numeric.eulerian_grid_ops as spne

    return sorted(n for n in spne.__all__ if n.startswith("gen_"))
