"""C09 - marker kinematics are the rigid-section kinematics of the body."""

from __future__ import annotations

import numpy as np
from hypothesis import strategies as st

from .. import bodies, gen
from ..runner import Part, Violation
from .c08 import GRIDS, build_grid, grid_strategy, pad3

PROPERTY_ID = "C09"
LEVEL = "exploration"
RULE = (
    "Stratified over every forcing-grid class (as C08). Hypothesis draws body state (generic/planar poses incl. axis-aligned "
    "and 180-degree cases, lab velocity V, material angular velocity; rods with 2..40 elements, generic directors, tapers, "
    "node masses), grid density and a small advance time tau in [1e-6, 1e-2]. Oracle: independent float64 rigid kinematics. "
    "Rigid bodies: v_m == V + Omega x (x_m - X) with Omega = Q^T omega; body-fixed grids (2-D/3-D cylinder, plane): the pose "
    "is advanced exactly (X += V tau, Q^T <- R(Omega tau) Q^T by Rodrigues) in the body's own arrays, marker positions are "
    "recomputed and |x_m(tau) - x_m(0) - v_m tau| <= (theta^2/2 + theta^3/6)|r_m| (1+1e-6) + 64 eps |x| (exact Taylor "
    "remainder, theta = |Omega| tau); sphere: markers translate by V tau and do not rotate. Rods: element centre = node "
    "mid-point, element velocity = mass-weighted node average, v_m == v_e + (Q_e^T omega_e) x (x_m - x_e); |x_m - x_e| == "
    "radius_e * cap ratio for surface/edge markers and 0 for centre markers, offsets perpendicular to d3 (surface) / to the "
    "tangent and in-plane (edge); nodal grid bit-identical to the node arrays. Non-trivial: |Omega| > 0 with components along "
    "and across the body axis and a non-aligned pose (rigid); taper/caps and non-zero element angular velocity (rods)."
)
ASSUMPTIONS = ["2-D grids: planar bodies; marker-to-element assignment of the surface grid read from the grid object"]
BUDGET_S = {"quick": 150.0, "thorough": 2400.0}


def _variants(tier):
    return list(GRIDS)


def _strategy(tier, kind):
    @st.composite
    def case(draw):
        c = draw(grid_strategy(kind, tier))
        c["tau"] = draw(gen.log_uniform(1e-6, 1e-2))
        return c

    return case()


def _close(a, b, tol, what):
    err = np.abs(np.asarray(a) - np.asarray(b))
    if not np.all(np.isfinite(a)) or np.any(err > tol):
        i = np.unravel_index(int(np.argmax(err - tol)), err.shape)
        raise Violation(f"{what}: got {np.asarray(a)[i]!r}, rigid-section kinematics give {np.asarray(b)[i]!r} at index {tuple(int(q) for q in i)} "
                        f"(tol {float(np.max(tol)):.3e})")


def _body(case, ctx):
    kind = case["grid"]
    eps = np.finfo(np.float64).eps
    with ctx.repo_call(f"constructing {kind}"):
        g, body, dim, rigid, Q = build_grid(case)
    with ctx.repo_call("compute_lag_grid_position/velocity_field"):
        g.compute_lag_grid_position_field()
        g.compute_lag_grid_velocity_field()
    x0 = pad3(g.position_field).copy()
    v0 = pad3(g.velocity_field).copy()
    if rigid:
        X = body.position_collection[:, 0].copy()
        V = body.velocity_collection[:, 0].copy()
        Qm = body.director_collection[..., 0].copy()
        om = body.omega_collection[:, 0].copy()
        Om = Qm.T @ om
        r = x0 - X[:, None]
        want_v = V[:, None] + np.cross(Om, r.T).T
        if dim == 2:
            want_v[2] = 0.0
        vs = np.abs(V).max() + np.linalg.norm(Om) * (np.abs(r).max() + np.abs(X).max() + 1e-300)
        _close(v0, want_v, 64 * eps * (vs + 1e-300), f"{kind}: marker velocity")
        # geometry: markers at the body radius / in the plane
        geom = case["geom"]
        if kind in ("cylinder2d", "cylinder3d"):
            axis = Qm[2]
            rad = np.linalg.norm(r - np.outer(axis, axis @ r), axis=0) if dim == 3 else np.linalg.norm(r[:2], axis=0)
            _close(rad, np.full_like(rad, geom["radius"]), 64 * eps * (geom["radius"] + np.abs(X).max()), f"{kind}: marker distance from the axis")
        elif kind == "sphere":
            _close(np.linalg.norm(r, axis=0), np.full(r.shape[1], geom["radius"]), 64 * eps * (geom["radius"] + np.abs(X).max()),
                   "sphere: marker distance from the centre")
        else:
            _close(Qm[2] @ r, np.zeros(r.shape[1]), 64 * eps * (np.abs(r).max() + np.abs(X).max()), "plane: markers lie in the plane")
        # advance the pose
        tau = case["tau"]
        th = np.linalg.norm(Om) * tau
        body.position_collection[:, 0] = X + V * tau
        QT_new = bodies.rodrigues(Om * tau) @ Qm.T
        body.director_collection[..., 0] = QT_new.T
        with ctx.repo_call("compute_lag_grid_position_field (advanced pose)"):
            g.compute_lag_grid_position_field()
        x1 = pad3(g.position_field)
        rn = np.linalg.norm(r, axis=0)
        if kind == "sphere":
            _close(x1, x0 + (V * tau)[:, None], 64 * eps * (np.abs(x0).max() + np.abs(V).max() * tau + 1e-300),
                   "sphere: markers must translate with the centre and not rotate")
        else:
            dev = np.linalg.norm(x1 - x0 - v0 * tau, axis=0)
            bound = (th * th / 2 + th**3 / 6) * rn * (1 + 1e-6) + 64 * eps * (np.abs(x0).max() + 1e-300)
            if np.any(dev > bound):
                m = int(np.argmax(dev - bound))
                raise Violation(f"{kind}: marker {m} moved by {(x1 - x0)[:, m].tolist()} while velocity*tau = {(v0[:, m] * tau).tolist()} "
                                f"(deviation {dev[m]:.3e} > second-order bound {bound[m]:.3e}, tau {tau:.3g}, |Omega| {np.linalg.norm(Om):.3g})")
            # markers are body-fixed: distance to the centre is preserved
            _close(np.linalg.norm(x1 - body.position_collection[:, :1], axis=0), rn, 64 * eps * (rn.max() + np.abs(x0).max() + 1e-300),
                   f"{kind}: markers are not body-fixed")
        p = case["pose"]
        axis = Qm[2]
        along, across = abs(Om @ axis), np.linalg.norm(Om - (Om @ axis) * axis)
        nontriv = np.linalg.norm(Om) > 0 and p["mode"] == "generic" and (dim == 2 or (along > 1e-3 and across > 1e-3))
        ctx.note(nontrivial=bool(nontriv), labels=[kind, "pose_" + p["mode"], "omega_zero" if not np.any(Om) else "omega_nonzero"])
        return
    # ---------------- rods
    rod = body
    xn, vn, mass = rod.position_collection, rod.velocity_collection, rod.mass
    xe = 0.5 * (xn[:, 1:] + xn[:, :-1])
    ve = (mass[1:] * vn[:, 1:] + mass[:-1] * vn[:, :-1]) / (mass[1:] + mass[:-1])
    Qc = rod.director_collection
    Oe = np.stack([Qc[:, :, e].T @ rod.omega_collection[:, e] for e in range(rod.n_elems)], axis=1)
    n_el = rod.n_elems
    xs = np.abs(xn).max() + 1e-300
    # marker offsets are differences of positions (rounding eps*|x|), so Omega x offset carries |Omega| eps |x|
    vs = np.abs(vn).max() + np.abs(Oe).max() * (rod.radius.max() + xs) + 1e-300
    if kind.startswith("rod_nodal"):
        if g.position_field.tobytes() != xn[:dim].tobytes() or g.velocity_field.tobytes() != vn[:dim].tobytes():
            raise Violation("nodal grid does not coincide bit-wise with node positions/velocities")
    elif kind.startswith("rod_element"):
        _close(g.position_field, xe[:dim], 16 * eps * xs, "element-centric grid position")
        _close(g.velocity_field, ve[:dim], 16 * eps * vs, "element-centric grid velocity")
    elif kind == "rod_edge_2d":
        zhat = np.array([0.0, 0.0, 1.0])
        nrm = np.cross(zhat, rod.tangents.T).T
        off = nrm * rod.radius
        want_x = np.concatenate([xe, xe + off, xe - off], axis=1)
        want_v = np.concatenate([ve, ve + np.cross(Oe.T, off.T).T, ve + np.cross(Oe.T, -off.T).T], axis=1)
        _close(g.position_field, want_x[:2], 64 * eps * xs, "edge grid position")
        _close(g.velocity_field, want_v[:2], 64 * eps * vs, "edge grid velocity")
        d = pad3(g.position_field)[:, n_el:] - np.concatenate([xe, xe], axis=1)
        _close(np.linalg.norm(d, axis=0), np.concatenate([rod.radius, rod.radius]), 64 * eps * xs, "edge markers at the local radius")
        tt = np.concatenate([rod.tangents, rod.tangents], axis=1)
        _close(np.sum(d * tt, axis=0), np.zeros(2 * n_el), 64 * eps * xs, "edge offsets perpendicular to the tangent")
    else:
        ratio = g.grid_point_radius_ratio
        if np.any(ratio < 0) or np.any(ratio > 1 + 1e-12):
            raise Violation(f"cap radius ratios outside [0,1]: {ratio.min()!r}..{ratio.max()!r}")
        if not kind.endswith("caps_3d") and np.any(ratio != 1.0):
            raise Violation("surface grid without caps has radius ratios different from 1")
        xm, vm = g.position_field, g.velocity_field
        for e in range(n_el):
            sl = slice(int(g.start_idx[e]), int(g.end_idx[e]))
            cnt = sl.stop - sl.start
            d = xm[:, sl] - xe[:, e:e + 1]
            dist = np.linalg.norm(d, axis=0)
            if cnt == 1 and not kind.endswith("caps_3d"):
                want = np.zeros(1)
            elif g.surface_grid_points[e] == 1:
                want = np.zeros(cnt)
            else:
                want = rod.radius[e] * ratio[sl]
            _close(dist, want, 64 * eps * xs, f"surface markers of element {e} at radius*ratio from the element centre")
            _close(Qc[2, :, e] @ d, np.zeros(cnt), 64 * eps * xs, f"surface marker offsets of element {e} perpendicular to d3")
            wv = ve[:, e:e + 1] + np.cross(Oe[:, e], d.T).T
            _close(vm[:, sl], wv, 64 * eps * vs, f"surface marker velocity of element {e}")
    r = case["rod"]
    ctx.note(nontrivial=(r["taper"] != "uniform" or kind.endswith("caps_3d")) and r["omega_scale"] > 0,
             labels=[kind, "taper_" + r["taper"], "frame_" + r["frame_mode"]])


PARTS = [
    Part(name="marker_kinematics", strategy=_strategy, body=_body, variants=_variants,
         examples={"quick": 1100, "thorough": 22000}, shards={"quick": 11, "thorough": 11}),
]

# the same generator and oracle driven by libFuzzer with branch coverage of the forcing-grid classes as feedback
from ..fuzz import make_fuzz_part  # noqa: E402

PARTS.append(make_fuzz_part("coverage_guided_marker_kinematics", PARTS[0], instrument=["sopht.simulator.immersed_body"],
                            runs={"quick": 400, "thorough": 40000}, max_time={"quick": 25, "thorough": 900}))
