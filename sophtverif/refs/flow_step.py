"""Independent float64 reference of one flow time step, written from the documented operator sequence.

Nothing here imports sopht.  Arrays follow the simulator convention: scalar fields (ny, nx) /
(nz, ny, nx); vector fields (dim, ...) with component 0 = x and x along the LAST array axis.
Every operator also propagates a magnitude bound ``A`` (same computation on absolute values) that the
checks use as the scale S of the stated tolerance K*eps*S.
"""

from __future__ import annotations

import numpy as np

from . import poisson


def _ax(dim, comp):
    """array axis of spatial direction comp (0=x -> last axis)."""
    return dim - 1 - comp


def _shift(f, axis, k):
    """f shifted so that result[i] = f[i + k] along axis (no wrap handling: caller slices interior)."""
    return np.roll(f, -k, axis=axis)


def interior(dim, g=1):
    return (slice(g, -g),) * dim


def cdiff(f, comp, dim):
    """f[i+1] - f[i-1] along spatial direction comp (valid on interior only)."""
    a = _ax(dim, comp)
    return _shift(f, a, 1) - _shift(f, a, -1)


def adiff(f, comp, dim):
    a = _ax(dim, comp)
    return np.abs(_shift(f, a, 1)) + np.abs(_shift(f, a, -1))


def curl_numerator(F, dim):
    """centred curl numerator(s) (no 1/2h): 2-D -> scalar array; 3-D -> (3,...) array."""
    if dim == 2:
        return cdiff(F[1], 0, 2) - cdiff(F[0], 1, 2)
    fx, fy, fz = F
    return np.stack([
        cdiff(fz, 1, 3) - cdiff(fy, 2, 3),
        cdiff(fx, 2, 3) - cdiff(fz, 0, 3),
        cdiff(fy, 0, 3) - cdiff(fx, 1, 3),
    ])


def curl_numerator_abs(F, dim):
    if dim == 2:
        return adiff(F[1], 0, 2) + adiff(F[0], 1, 2)
    fx, fy, fz = F
    return np.stack([
        adiff(fz, 1, 3) + adiff(fy, 2, 3),
        adiff(fx, 2, 3) + adiff(fz, 0, 3),
        adiff(fy, 0, 3) + adiff(fx, 1, 3),
    ])


def eno3_face_values(g, u, axis):
    """Third-order upwind-biased face values F_{i+1/2} along an array axis (valid for 1 <= i <= n-3)."""
    gm1, g0, gp1, gp2 = _shift(g, axis, -1), g, _shift(g, axis, 1), _shift(g, axis, 2)
    up = u > -_shift(u, axis, 1)
    left = -gm1 / 6.0 + 5.0 * g0 / 6.0 + gp1 / 3.0
    right = g0 / 3.0 + 5.0 * gp1 / 6.0 - gp2 / 6.0
    return np.where(up, left, right)


def eno3_face_values_abs(g, axis):
    ga = np.abs(g)
    return (_shift(ga, axis, -1) + ga + _shift(ga, axis, 1) + _shift(ga, axis, 2))


def advect_eno3(phi, vel, dt_by_dx, A=None):
    """phi -= dt/dx * sum_axes (F_{i+1/2} - F_{i-1/2}) on cells >= 2 from every boundary."""
    dim = phi.ndim
    out = phi.copy()
    inner = interior(dim, 2)
    tot = np.zeros_like(phi)
    tot_abs = np.zeros_like(phi)
    for comp in range(dim):
        a = _ax(dim, comp)
        g = phi * vel[comp]
        face = eno3_face_values(g, vel[comp], a)
        tot += face - _shift(face, a, -1)
        if A is not None:
            fa = eno3_face_values_abs(A * np.abs(vel[comp]), a)
            tot_abs += fa + _shift(fa, a, -1)
    out[inner] -= dt_by_dx * tot[inner]
    if A is not None:
        A = A.copy()
        A[inner] += abs(dt_by_dx) * tot_abs[inner]
    return out, A


def diffuse(phi, nu_dt_by_dx2, A=None):
    dim = phi.ndim
    inner = interior(dim, 1)
    lap = -2.0 * dim * phi
    lap_abs = 2.0 * dim * (np.abs(phi) if A is None else A)
    for a in range(dim):
        lap = lap + _shift(phi, a, 1) + _shift(phi, a, -1)
        if A is not None:
            lap_abs = lap_abs + _shift(A, a, 1) + _shift(A, a, -1)
    out = phi.copy()
    out[inner] += nu_dt_by_dx2 * lap[inner]
    if A is not None:
        A = A.copy()
        A[inner] += abs(nu_dt_by_dx2) * lap_abs[inner]
    return out, A


def filter_axis(b, axis):
    """F_a b = 1/4 (2b - b_+ - b_-) on the interior (all dims), zero ring."""
    dim = b.ndim
    out = np.zeros_like(b)
    inner = interior(dim, 1)
    val = 0.25 * (2.0 * b - _shift(b, axis, 1) - _shift(b, axis, -1))
    out[inner] = val[inner]
    return out


def filter_axis_abs(b, axis):
    """magnitude bound of filter_axis: 1/4 (2|b| + |b_+| + |b_-|)."""
    out = np.zeros_like(b)
    inner = interior(b.ndim, 1)
    val = 0.25 * (2.0 * b + _shift(b, axis, 1) + _shift(b, axis, -1))
    out[inner] = val[inner]
    return out


def laplacian_filter(phi, order, ftype, magnitude=False):
    """scalar 3-D field; pass order x, y, z (x = last array axis).

    magnitude=True propagates a magnitude bound instead (all terms added with absolute values), which is what the
    rounding tolerance of the comparison is scaled with; the filter is non-local, so a pointwise factor is not a bound.
    """
    axes = [2, 1, 0]
    phi = phi.copy()
    fa = filter_axis_abs if magnitude else filter_axis
    sgn = 1.0 if magnitude else -1.0
    if ftype == "multiplicative":
        b = phi.copy()
        flux = np.zeros_like(phi)
        for _ in range(order):
            for a in axes:
                flux = fa(b, a)
                b = flux.copy()
        return phi + sgn * flux
    for a in axes:
        b = phi.copy()
        flux = np.zeros_like(phi)
        for _ in range(order):
            flux = fa(b, a)
            b = flux.copy()
        phi = phi + sgn * flux
    return phi


def damp_boundary(phi, width, ramp_on=True):
    """Sine damping of the boundary zone: broadcast the value at depth w-1, multiply depth k by sin(pi k / 2w).

    x (last axis) first, then y, then z.  Returns (field, rounding_amplification) where the second array
    is 1 outside the zone and ~n inside (positions are differenced in working precision).
    """
    phi = phi.copy()
    amp = np.ones_like(phi)
    if width == 0:
        return phi, amp
    dim = phi.ndim
    ramp = np.sin(np.pi * np.arange(width) / (2.0 * width)) if ramp_on else np.ones(width)
    for comp in range(dim):
        a = _ax(dim, comp)
        n = phi.shape[a]
        phi = np.moveaxis(phi, a, -1)
        amp = np.moveaxis(amp, a, -1)
        front = phi[..., width - 1:width].copy()
        back = phi[..., n - width:n - width + 1].copy()
        phi[..., :width] = front * ramp
        phi[..., n - width:] = back * ramp[::-1]
        afr = amp[..., width - 1:width].copy()
        abk = amp[..., n - width:n - width + 1].copy()
        amp[..., :width] = afr + n
        amp[..., n - width:] = abk + n
        phi = np.moveaxis(phi, -1, a)
        amp = np.moveaxis(amp, -1, a)
    return phi, amp


def velocity_from_stream_function(psi, dx, dim):
    """u = curl(psi) / (2 dx) on the interior, zero ring."""
    inner = interior(dim, 1)
    if dim == 2:
        u = np.zeros((2, *psi.shape))
        u[0][inner] = (cdiff(psi, 1, 2) * (0.5 / dx))[inner]
        u[1][inner] = (-cdiff(psi, 0, 2) * (0.5 / dx))[inner]
        return u
    num = curl_numerator(psi, 3)
    u = np.zeros_like(psi)
    for c in range(3):
        u[c][inner] = (num[c] * (0.5 / dx))[inner]
    return u


class StepResult:
    pass


def ns_step(cfg, dx, dt, vorticity, velocity, forcing, free_stream):
    """One documented Navier-Stokes step (2-D scalar vorticity, 3-D vector vorticity)."""
    dim = 2 if cfg["sim"] == "ns2d" else 3
    w = np.asarray(vorticity, dtype=np.float64).copy()
    u = np.asarray(velocity, dtype=np.float64)
    A = np.abs(w)
    inner = interior(dim, 1)
    nu, rho, width = cfg["nu"], cfg["rho"], cfg["width"]
    # 1. forcing
    if cfg["with_forcing"]:
        f = np.asarray(forcing, dtype=np.float64)
        pre = dt / (2.0 * dx * rho)
        num, numa = curl_numerator(f, dim), curl_numerator_abs(f, dim)
        if dim == 2:
            w[inner] += pre * num[inner]
            A[inner] += abs(pre) * numa[inner]
        else:
            for c in range(3):
                w[c][inner] += pre * num[c][inner]
                A[c][inner] += abs(pre) * numa[c][inner]
    # 2. transport
    if dim == 2:
        w, A = advect_eno3(w, u, dt / dx, A)
        w, A = diffuse(w, nu * dt / dx / dx, A)
    else:
        uxw = np.cross(u, w, axis=0)
        uxw_abs = np.stack([np.abs(u[1]) * A[2] + np.abs(u[2]) * A[1],
                            np.abs(u[2]) * A[0] + np.abs(u[0]) * A[2],
                            np.abs(u[0]) * A[1] + np.abs(u[1]) * A[0]])
        pre = dt / (2.0 * dx)
        num, numa = curl_numerator(uxw, 3), curl_numerator_abs(uxw_abs, 3)
        for c in range(3):
            w[c][inner] += pre * num[c][inner]
            A[c][inner] += abs(pre) * numa[c][inner]
        # 3. diffusion (component-wise)
        for c in range(3):
            w[c], A[c] = diffuse(w[c], nu * dt / dx / dx, A[c])
        # 4. filter
        if cfg.get("filter"):
            for c in range(3):
                w[c] = laplacian_filter(w[c], cfg["filter"]["order"], cfg["filter"]["type"])
            A = np.stack([laplacian_filter(A[c], cfg["filter"]["order"], cfg["filter"]["type"], magnitude=True) for c in range(3)])
    # 5. boundary damping
    if dim == 2:
        w, amp = damp_boundary(w, width)
        A = damp_boundary(A, width, ramp_on=False)[0] * amp
    else:
        for c in range(3):
            w[c], amp = damp_boundary(w[c], width)
            A[c] = damp_boundary(A[c], width, ramp_on=False)[0] * amp
    res = StepResult()
    res.vorticity = w
    res.A = A
    # 6. Poisson
    shape = w.shape[-dim:]
    if cfg["poisson"] == "fast_diagonalisation":
        psi = np.stack([poisson.neumann_solve_dct(w[c], dx) for c in range(3)])
        L2 = (max(shape) * dx) ** 2
        s_psi = L2 * float(np.max(A)) + max(shape) * float(np.max(np.abs(psi)))
    else:
        if dim == 2:
            psi = poisson.free_space_solve_fft(w, dx)
        else:
            psi = np.stack([poisson.free_space_solve_fft(w[c], dx) for c in range(3)])
        G = poisson.greens_separation_kernel(shape, dx)
        s_psi = dx**dim * (float(np.sum(np.abs(G))) * float(np.max(A))
                           + float(np.linalg.norm(G)) * float(np.linalg.norm(w)))
    res.psi = psi
    # 7. velocity
    un = velocity_from_stream_function(psi, dx, dim)
    fs = np.asarray(free_stream, dtype=np.float64) if cfg["with_free_stream"] else np.zeros(dim)
    for c in range(dim):
        un[c] += fs[c]
    res.velocity = un
    res.S_velocity = s_psi / dx + float(np.max(np.abs(fs)))
    res.S_vorticity = float(np.max(A))
    return res


def passive_step(cfg, dx, dt, primary, velocity):
    phi = np.asarray(primary, dtype=np.float64)
    u = np.asarray(velocity, dtype=np.float64)
    res = StepResult()
    if cfg["sim"].endswith("vector"):
        outs, As = [], []
        for c in range(phi.shape[0]):
            p, A = advect_eno3(phi[c], u, dt / dx, np.abs(phi[c]))
            p, A = diffuse(p, cfg["nu"] * dt / dx / dx, A)
            outs.append(p)
            As.append(A)
        res.primary = np.stack(outs)
        res.S_primary = float(max(np.max(a) for a in As))
    else:
        p, A = advect_eno3(phi, u, dt / dx, np.abs(phi))
        p, A = diffuse(p, cfg["nu"] * dt / dx / dx, A)
        res.primary = p
        res.S_primary = float(np.max(A))
    return res
