"""C17 - saved fields reload bit-exactly and mismatching files are rejected."""

from __future__ import annotations

import os
import shutil
import tempfile

import numpy as np
from hypothesis import strategies as st

from .. import gen
from ..runner import Part, Violation

PROPERTY_ID = "C17"
LEVEL = "exploration"
RULE = (
    "Stratified over {IO, EulerianFieldIO, CosseratRodIO} x {2-D,3-D} x precision. Hypothesis draws a registry: 0-4 Eulerian "
    "scalar/vector fields with generated keyword names, 0-3 Lagrangian grids (named or default-named, connected or not) with "
    "marker counts in {1,2,3,4,dim,17} and 0-3 scalar/vector fields each (field names drawn from a small alphabet so that names "
    "repeat across grids), array contents as raw bit patterns with NaN (both signs, payloads), +-inf, +-0, denormals and extreme "
    "normals over-represented, and a time stamp (any finite float). Oracles: after save the source arrays are bit-identical; a "
    "FRESH IO object with freshly allocated arrays registered under the same names restores every field, every Lagrangian grid "
    "and the time stamp bit-exactly (uint views); on-disk layout read back with h5py: Eulerian scalar (1,*grid), vector "
    "components <name>_<i> (1,*grid); Lagrangian Grid (N,dim) transposed, vectors under Vector/ as (N,dim) with file[n,c]==mem[c,n], "
    "scalars (N,) under Scalar/; rejection: with one registered dataset deleted from the file, or an Eulerian origin/dx/grid_size "
    "registered that differs by >= 1e-3 relative, load() must raise. Non-trivial: >= 1 Lagrangian vector field or Eulerian vector "
    "field and at least one special value (NaN/inf/denormal) in the contents. Distinct = digest of case."
    " File histories: save() into an existing file name (same / reduced registry); deviation on the file side; zero origin components; whole-array zero/constant patterns; (grid, field) names that join to the same string."
)
ASSUMPTIONS = ["h5py/HDF5 trusted", "field names are Python identifiers (they are passed as keyword arguments)",
               "Eulerian grids have >= 2 cells along x for EulerianFieldIO (spacing is read from the coordinate field)"]
BUDGET_S = {"quick": 150.0, "thorough": 2400.0}

SPECIAL32 = [0x7FC00000, 0xFFC00000, 0x7F800001, 0x7F800000, 0xFF800000, 0x00000001, 0x807FFFFF, 0x80000000, 0x7F7FFFFF, 0x00800000]
SPECIAL64 = [0x7FF8000000000000, 0xFFF8000000000000, 0x7FF0000000000001, 0x7FF0000000000000, 0xFFF0000000000000,
             0x0000000000000001, 0x800FFFFFFFFFFFFF, 0x8000000000000000, 0x7FEFFFFFFFFFFFFF, 0x0010000000000000]
# names are built from few tokens so that they repeat across grids AND so that different (grid name, field name) pairs join to the
# same string under the usual separators ("rod" + "tip_force" / "rod_tip" + "force", "a" + "b_c" / "a_b" + "c", "f" + "0" / "f_0")
NAMES = ["a", "b", "u", "vel", "f_0", "f", "Grid", "Scalar", "x1", "omega_field", "w", "tip_force", "force", "b_c", "c"]
GRID_NAMES = ["rodA", "Grid", "body_2", "cyl", "rod", "rod_tip", "a", "a_b"]


def _variants(tier):
    return [[c, d, p] for c in ("IO", "EulerianFieldIO", "CosseratRodIO") for d in (2, 3) for p in ("float32", "float64")]


def _bits(dtype, n):
    width = 32 if dtype == "float32" else 64
    special = SPECIAL32 if width == 32 else SPECIAL64
    one = st.one_of(st.sampled_from(special), st.integers(0, 2**width - 1), st.integers(0, 2**width - 1))
    # whole-array patterns: fields that are zero everywhere (+0 / -0 mixed: e.g. -1.0 * zeros, a resting body's -omega x r) or constant
    zeros = st.lists(st.sampled_from([0, 1 << (width - 1)]), min_size=n, max_size=n)
    const = st.sampled_from(special + [0x3F800000 if width == 32 else 0x3FF0000000000000]).map(lambda b: [b] * n)
    return st.one_of(st.lists(one, min_size=n, max_size=n), st.lists(one, min_size=n, max_size=n), st.lists(one, min_size=n, max_size=n),
                     st.lists(one, min_size=n, max_size=n), zeros, const)


def _strategy(tier, var):
    cls, dim, dtype = var

    @st.composite
    def case0(draw):
        grid = draw(st.lists(st.integers(1, 5), min_size=dim, max_size=dim))
        if cls == "EulerianFieldIO":
            grid[-1] = max(grid[-1], 2)
        ncell = int(np.prod(grid))
        c = {"cls": cls, "dim": dim, "dtype": dtype, "grid": grid,
             "time": draw(st.one_of(st.sampled_from([0.0, -0.0, 1.5, 1e-310, 1.7976931348623157e308]),
                                    st.floats(allow_nan=False, allow_infinity=False, width=64))),
             # node-centred grids / domains starting at the coordinate origin have origin components exactly 0
             "origin": draw(st.lists(st.one_of(gen.floats(-5.0, 5.0, 32), gen.floats(-5.0, 5.0, 32), st.sampled_from([0.0, -0.0, 1.0])),
                                     min_size=dim, max_size=dim)),
             "dx": draw(gen.floats(0.01, 2.0, 32)), "eul": [], "lag": []}
        if cls in ("IO", "EulerianFieldIO"):
            ne = draw(st.integers(0 if cls == "IO" else 1, 4))
            names = draw(st.lists(st.sampled_from(NAMES), min_size=ne, max_size=ne, unique=True))
            for nm in names:
                vec = draw(st.booleans())
                c["eul"].append({"name": nm, "vector": vec, "bits": draw(_bits(dtype, ncell * (dim if vec else 1)))})
        if cls == "IO":
            ng = draw(st.integers(0, 3))
            gnames = draw(st.lists(st.one_of(st.none(), st.sampled_from(GRID_NAMES)), min_size=ng, max_size=ng))
            seen = set()
            for gi, gn in enumerate(gnames):
                if gn is not None and gn in seen:
                    gn = f"{gn}_{gi}"
                seen.add(gn)
                n = draw(st.sampled_from([1, 2, 3, 4, dim, 17]))
                nf = draw(st.integers(0, 3))
                fnames = draw(st.lists(st.sampled_from(NAMES), min_size=nf, max_size=nf, unique=True))
                fields = []
                for fn in fnames:
                    vec = draw(st.booleans())
                    fields.append({"name": fn, "vector": vec, "bits": draw(_bits(dtype, n * (dim if vec else 1)))})
                c["lag"].append({"name": gn, "connect": draw(st.booleans()), "n": n, "grid_bits": draw(_bits(dtype, n * dim)),
                                 "fields": fields})
        if cls == "IO" and len(c["lag"]) >= 2 and draw(st.integers(0, 3)) == 0:
            # two different (grid, field) pairs whose names join to the same string under "_"
            ga, fa, gb, fb = draw(st.sampled_from([("rod", "tip_force", "rod_tip", "force"), ("a", "b_c", "a_b", "c")]))
            for g, gn, fn in ((c["lag"][0], ga, fa), (c["lag"][1], gb, fb)):
                g["name"] = gn
                g["fields"] = [fl for fl in g["fields"] if fl["name"] != fn]
                vec = draw(st.booleans())
                g["fields"].append({"name": fn, "vector": vec, "bits": draw(_bits(dtype, g["n"] * (dim if vec else 1)))})
            for g in c["lag"][2:]:
                if g["name"] in (ga, gb):
                    g["name"] = None
            c["joined_names_collide"] = True
        if cls == "CosseratRodIO":
            c["n_elems"] = draw(st.sampled_from([2, 3, 4, dim, 9]))
            c["rod_key"] = draw(gen.block_keys)
        # the precision of the registered arrays is independent of the IO object's real_dtype (a single-precision flow
        # simulation stores double-precision PyElastica data through the same IO classes)
        c["array_dtype"] = draw(st.sampled_from([dtype, dtype, "float32" if dtype == "float64" else "float64"]))
        # file histories: the same file NAME is written again (same registry with new contents, or a reduced registry)
        c["overwrite"] = draw(st.sampled_from(["none", "same_registry", "same_registry", "reduced_registry"]))
        c["overwrite_pick"] = draw(st.integers(0, 50))
        c["reject"] = draw(st.sampled_from(["delete_dataset", "origin", "dx", "grid_size"]))
        c["reject_pick"] = draw(st.integers(0, 50))
        # which side carries the deviating parameter: the reader's registration or the file
        c["reject_flip"] = draw(st.booleans())
        c["perturb"] = draw(gen.floats(1e-3, 0.5, 32))
        return c

    @st.composite
    def case(draw):
        c = draw(case0())
        if c["array_dtype"] != dtype and cls == "IO":
            # contents are drawn as bit patterns of the ARRAY precision
            def redraw(n):
                return draw(_bits(c["array_dtype"], n))
            for e in c["eul"]:
                e["bits"] = redraw(len(e["bits"]))
            for g in c["lag"]:
                g["grid_bits"] = redraw(len(g["grid_bits"]))
                for fl in g["fields"]:
                    fl["bits"] = redraw(len(fl["bits"]))
        elif cls != "IO":
            c["array_dtype"] = dtype
        return c

    return case()


def _arr(bits, shape, dtype):
    ut = np.uint32 if dtype == "float32" else np.uint64
    return np.array(bits, dtype=ut).view(np.float32 if dtype == "float32" else np.float64).reshape(shape).copy()


def _same_bits(a, b):
    return a.shape == b.shape and a.dtype == b.dtype and a.tobytes() == b.tobytes()


def _build(case, fresh):
    """Constructs the IO object with registered arrays.  fresh=True allocates new (garbage-filled) arrays."""
    import sopht.utils as spu

    cls, dim, dtype = case["cls"], case["dim"], case["dtype"]
    real_t = gen.np_dtype(dtype)
    adt = case.get("array_dtype", dtype)
    grid = tuple(case["grid"])
    reg = {"eul": {}, "lag": []}

    def mk(bits, shape):
        a = _arr(bits, shape, adt)
        if fresh:
            a = np.full(shape, 4242.0, dtype=gen.np_dtype(adt))
        return a

    if cls == "EulerianFieldIO":
        axes = [((np.arange(n) + 0.5) * case["dx"] + 0.0).astype(real_t) for n in grid]
        pos = np.flipud(np.array(np.meshgrid(*axes, indexing="ij")))
        fields = {}
        for e in case["eul"]:
            fields[e["name"]] = mk(e["bits"], (dim, *grid) if e["vector"] else grid)
        io = spu.EulerianFieldIO(position_field=pos, eulerian_fields_dict=fields)
        reg["eul"] = fields
        return io, reg
    if cls == "CosseratRodIO":
        import elastica as ea

        n = case["n_elems"]
        rng = np.random.Generator(np.random.Philox(key=int(case["rod_key"]) + (1 if fresh else 0)))
        rod = ea.CosseratRod.straight_rod(n, rng.normal(size=3), np.array([0.0, 0.0, 1.0]), np.array([1.0, 0.0, 0.0]), 1.0 + rng.random(),
                                          0.05, 1000.0, youngs_modulus=1e6, shear_modulus=1e6 / 1.5)
        rod.position_collection[...] += rng.normal(size=rod.position_collection.shape) * 0.05
        rod.radius[...] = 0.01 + rng.random(n)
        io = spu.CosseratRodIO(cosserat_rod=rod, dim=dim, real_dtype=real_t)
        reg["rod"] = rod
        return io, reg
    io = spu.IO(dim=dim, real_dtype=real_t)
    if case["eul"]:
        io.define_eulerian_grid(origin=np.array(case["origin"], dtype=np.float64), dx=np.full(dim, case["dx"]), grid_size=np.array(grid))
        for e in case["eul"]:
            a = mk(e["bits"], (dim, *grid) if e["vector"] else grid)
            reg["eul"][e["name"]] = a
            io.add_as_eulerian_fields_for_io(**{e["name"]: a})
    for g in case["lag"]:
        ga = mk(g["grid_bits"], (dim, g["n"]))
        fields = {f["name"]: mk(f["bits"], (dim, g["n"]) if f["vector"] else (g["n"],)) for f in g["fields"]}
        kw = {}
        if g["name"] is not None:
            kw["lagrangian_grid_name"] = g["name"]
        io.add_as_lagrangian_fields_for_io(lagrangian_grid=ga, lagrangian_grid_connect=g["connect"], **kw, **fields)
        reg["lag"].append({"grid": ga, "fields": fields, "spec": g})
    return io, reg


def _grid_names(case):
    names, k = [], 0
    for g in case["lag"]:
        if g["name"] is None:
            names.append(f"Lagrangian_grid_{k}")
            k += 1
        else:
            names.append(g["name"])
    return names


def _body(case, ctx):
    import h5py

    cls, dim, dtype = case["cls"], case["dim"], case["dtype"]
    grid = tuple(case["grid"])
    tmp = tempfile.mkdtemp(prefix="sophtverif_c17_")
    try:
        fname = os.path.join(tmp, "case_0001.h5")
        with ctx.repo_call("registering fields"):
            io, reg = _build(case, fresh=False)
        src_eul = {k: v.copy() for k, v in reg["eul"].items()}
        src_lag = [{"grid": g["grid"].copy(), "fields": {k: v.copy() for k, v in g["fields"].items()}} for g in reg["lag"]]
        t = case["time"]
        with ctx.repo_call("save"):
            io.save(h5_file_name=fname, time=t)
        # (i) sources untouched
        for k, v in reg["eul"].items():
            if not _same_bits(v, src_eul[k]):
                raise Violation(f"save() modified the Eulerian source array '{k}'")
        for g, s0 in zip(reg["lag"], src_lag):
            if not _same_bits(g["grid"], s0["grid"]) or any(not _same_bits(v, s0["fields"][k]) for k, v in g["fields"].items()):
                raise Violation("save() modified a Lagrangian source array")
        # (iii) on-disk layout
        gnames = _grid_names(case)
        dup_across = len({f["name"] for g in case["lag"] for f in g["fields"]}) < sum(len(g["fields"]) for g in case["lag"])
        with h5py.File(fname, "r") as f:
            for e in case["eul"]:
                a = src_eul[e["name"]]
                if e["vector"]:
                    for i in range(dim):
                        ds = f.get(f"Eulerian/Vector/{e['name']}_{i}")
                        if ds is None or ds.shape != (1, *grid) or ds[...].tobytes() != a[i].tobytes():
                            raise Violation(f"Eulerian vector '{e['name']}' component {i} is not stored as (1,*grid) dataset {e['name']}_{i}")
                else:
                    ds = f.get(f"Eulerian/Scalar/{e['name']}")
                    if ds is None or ds.shape != (1, *grid) or ds[...].tobytes() != a.tobytes():
                        raise Violation(f"Eulerian scalar '{e['name']}' is not stored as a (1,*grid) dataset")
            for gi, (g, s0) in enumerate(zip(case["lag"], src_lag)):
                n = g["n"]
                ds = f.get(f"Lagrangian/{gnames[gi]}/Grid")
                if ds is None or ds.shape != (n, dim) or ds[...].tobytes() != np.ascontiguousarray(s0["grid"].T).tobytes():
                    raise Violation(f"Lagrangian grid '{gnames[gi]}' (N={n}) is not stored marker-major (N,dim) with the bits of the source array: "
                                    f"shape {None if ds is None else ds.shape}, dtype {None if ds is None else ds.dtype} (source {s0['grid'].dtype})")
                for fld in g["fields"]:
                    a = s0["fields"][fld["name"]]
                    if fld["vector"]:
                        ds = f.get(f"Lagrangian/{gnames[gi]}/Vector/{fld['name']}")
                        if ds is None or ds.shape != (n, dim) or ds[...].tobytes() != np.ascontiguousarray(a.T).tobytes():
                            where = "Scalar" if f.get(f"Lagrangian/{gnames[gi]}/Scalar/{fld['name']}") is not None else "missing"
                            raise Violation(f"Lagrangian vector field '{fld['name']}' on a grid with N={n} markers (dim={dim}) is not stored under "
                                            f"Vector/ as (N,dim) with file[n,c]==mem[c,n] (found: {where}, shape {None if ds is None else ds.shape})",
                                            key="lagrangian_vector_N_eq_dim_misclassified" if n == dim else None)
                    else:
                        ds = f.get(f"Lagrangian/{gnames[gi]}/Scalar/{fld['name']}")
                        if ds is None or ds.shape != (n,) or ds[...].tobytes() != a.tobytes():
                            raise Violation(f"Lagrangian scalar field '{fld['name']}' is not stored as (N,) under Scalar/")
        # (ii) fresh IO + fresh arrays + load
        with ctx.repo_call("registering fresh arrays"):
            io2, reg2 = _build(case, fresh=True)
        with ctx.repo_call("load"):
            t2 = io2.load(h5_file_name=fname)
        if np.float64(t2).tobytes() != np.float64(t).tobytes():
            raise Violation(f"time stamp {t!r} reloaded as {t2!r}")
        for k, v in reg2["eul"].items():
            if not _same_bits(v, src_eul[k]):
                raise Violation(f"Eulerian field '{k}' not restored bit-exactly by load() into fresh arrays")
        for gi, (g2, s0) in enumerate(zip(reg2["lag"], src_lag)):
            if not _same_bits(g2["grid"], s0["grid"]):
                raise Violation(f"Lagrangian grid '{gnames[gi]}' (N={g2['grid'].shape[1]}, {len(g2['fields'])} fields, "
                                f"{sum(len(q['fields']) for q in reg2['lag'])} Lagrangian fields in total) not restored by load()",
                                key="lagrangian_grid_without_fields_not_loaded" if not any(q["fields"] for q in reg2["lag"]) else None)
            for k, v in g2["fields"].items():
                if not _same_bits(v, s0["fields"][k]):
                    raise Violation(f"Lagrangian field '{k}' on grid '{gnames[gi]}' not restored bit-exactly"
                                    + (" (the same field name is registered on two grids)" if dup_across else ""),
                                    key="same_field_name_on_two_lagrangian_grids" if dup_across else None)
        if cls == "CosseratRodIO":
            r1, r2 = reg["rod"], reg2["rod"]
            want = 0.5 * (r1.position_collection[:dim, 1:] + r1.position_collection[:dim, :-1])
            if not _same_bits(io2.rod_element_position, want) or not _same_bits(r2.radius, r1.radius):
                raise Violation("CosseratRodIO: element positions / radii not restored bit-exactly")
        # (ii-b) the same IO objects used again: second save after the sources changed, loaded by the already-used reader
        if cls == "IO" and (reg["eul"] or reg["lag"]):
            for v in reg["eul"].values():
                v[...] = np.flip(v.copy()).reshape(v.shape)
            for g in reg["lag"]:
                g["grid"][...] = np.flip(g["grid"].copy()).reshape(g["grid"].shape)
                for v in g["fields"].values():
                    v[...] = np.flip(v.copy()).reshape(v.shape)
            fname_b = os.path.join(tmp, "case_0003.h5")
            t_b = -t if t == t else 0.0
            with ctx.repo_call("second save with the same IO object"):
                io.save(h5_file_name=fname_b, time=t_b)
            with ctx.repo_call("second load with the same IO object"):
                t3 = io2.load(h5_file_name=fname_b)
            if np.float64(t3).tobytes() != np.float64(t_b).tobytes():
                raise Violation(f"second load returned time {t3!r}, file holds {t_b!r}")
            for k, v in reg2["eul"].items():
                if not _same_bits(v, reg["eul"][k]):
                    raise Violation(f"second save/load with the same IO objects: Eulerian field '{k}' holds stale data")
            for g2, g1 in zip(reg2["lag"], reg["lag"]):
                if not _same_bits(g2["grid"], g1["grid"]) or any(not _same_bits(v, g1["fields"][k]) for k, v in g2["fields"].items()):
                    raise Violation("second save/load with the same IO objects: a Lagrangian grid/field holds stale data")
        # (ii-c) file histories: save() into a file NAME that already exists (rolling checkpoints, stale files of an earlier run)
        if cls == "IO" and (reg["eul"] or reg["lag"]) and case.get("overwrite", "none") != "none":
            _overwrite_existing_file(case, ctx, tmp, io, reg)
        # (iv) rejection
        _rejection(case, ctx, fname, tmp, gnames)
    finally:
        shutil.rmtree(tmp, ignore_errors=True)
    special = SPECIAL32 if case.get("array_dtype", dtype) == "float32" else SPECIAL64
    allbits = [b for e in case["eul"] for b in e["bits"]] + [b for g in case["lag"] for fl in g["fields"] for b in fl["bits"]]
    has_special = any(b in special for b in allbits) or cls == "CosseratRodIO"
    has_vec = any(e["vector"] for e in case["eul"]) or any(fl["vector"] for g in case["lag"] for fl in g["fields"]) or cls == "CosseratRodIO"
    labels = [f"{cls}_{dim}d_{dtype}"] + (["arrays_of_other_precision"] if case.get("array_dtype", dtype) != dtype else [])
    if any(g["n"] == dim for g in case["lag"]):
        labels.append("N_equals_dim")
    if dup_across:
        labels.append("field_name_repeated_across_grids")
    if case.get("joined_names_collide"):
        labels.append("grid_and_field_names_join_to_the_same_string")
    if case["lag"] and not any(g["fields"] for g in case["lag"]):
        labels.append("grids_without_fields")
    ctx.note(nontrivial=has_special and has_vec, labels=labels)


def _overwrite_existing_file(case, ctx, tmp, io, reg):
    """io/reg: the writer of this case (its sources currently hold contents that differ from the first save)."""
    path = os.path.join(tmp, "latest.h5")
    # 1. an earlier save under this name: different contents (all sources negated/offset), different time
    c_old = dict(case)
    io_old, reg_old = _build(c_old, fresh=False)
    with ctx.repo_call("first save under the re-used file name"):
        io_old.save(h5_file_name=path, time=123.25)
    if case["overwrite"] == "same_registry":
        t_new = 7.5
        with ctx.repo_call("save() into an existing file (same registry)"):
            io.save(h5_file_name=path, time=t_new)
        io_r, reg_r = _build(case, fresh=True)
        with ctx.repo_call("load of the overwritten file"):
            t_r = io_r.load(h5_file_name=path)
        if float(t_r) != t_new:
            raise Violation(f"file written twice under the same name: load returned time {t_r!r}, the last save stored {t_new!r}")
        for k, v in reg_r["eul"].items():
            if not _same_bits(v, reg["eul"][k]):
                raise Violation(f"save() into an existing file: Eulerian field '{k}' reloads with the contents of the EARLIER save "
                                "(or other stale data), not those of the last save")
        for g2, g1 in zip(reg_r["lag"], reg["lag"]):
            if not _same_bits(g2["grid"], g1["grid"]) or any(not _same_bits(v, g1["fields"][k]) for k, v in g2["fields"].items()):
                raise Violation("save() into an existing file: a Lagrangian grid/field reloads with the contents of the EARLIER save, "
                                "not those of the last save")
        ctx.note(labels=["overwrote_existing_file_same_registry"])
        return
    # 2. reduced registry: the last writer registers one field (or grid) less; a reader that still registers it must be refused
    c_red = dict(case)
    c_red["eul"] = list(case["eul"])
    c_red["lag"] = [dict(g, fields=list(g["fields"])) for g in case["lag"]]
    victims = [("eul", i, None) for i in range(len(c_red["eul"]))]
    victims += [("lagf", gi, fi) for gi, g in enumerate(c_red["lag"]) for fi in range(len(g["fields"]))]
    if c_red["lag"] and c_red["lag"][-1]["name"] is not None or len(c_red["lag"]) >= 1:
        victims.append(("grid", len(c_red["lag"]) - 1, None))  # dropping the LAST grid keeps the default names of the others
    if not victims:
        return
    kind, a, b = victims[case.get("overwrite_pick", 0) % len(victims)]
    if kind == "eul":
        if len(c_red["eul"]) == 1 and not c_red["lag"]:
            return
        del c_red["eul"][a]
    elif kind == "lagf":
        del c_red["lag"][a]["fields"][b]
    else:
        if len(c_red["lag"]) == 1 and not c_red["eul"]:
            return
        del c_red["lag"][a]
    io_red, reg_red = _build(c_red, fresh=False)
    with ctx.repo_call("save() into an existing file (reduced registry)"):
        io_red.save(h5_file_name=path, time=9.0)
    io_r, reg_r = _build(c_red, fresh=True)
    with ctx.repo_call("load of the overwritten file (reduced registry)"):
        io_r.load(h5_file_name=path)
    for k, v in reg_r["eul"].items():
        if not _same_bits(v, reg_red["eul"][k]):
            raise Violation(f"save() into an existing file (reduced registry): Eulerian field '{k}' not restored")
    io_full, _ = _build(case, fresh=True)
    try:
        io_full.load(h5_file_name=path)
    except Exception:  # noqa: BLE001 - any error is a rejection
        ctx.note(labels=["overwrote_existing_file_reduced_registry_rejected"])
        return
    raise Violation(f"the last save() under this file name did not contain the registered {kind} #{a}{'' if b is None else '/' + str(b)}, "
                    "yet load() returned normally (data of an EARLIER save under the same name survived)")


def _rejection(case, ctx, fname, tmp, gnames):
    import h5py

    cls, dim = case["cls"], case["dim"]
    mode = case["reject"]
    if mode == "delete_dataset":
        with h5py.File(fname, "r") as f:
            keys = []
            f.visit(lambda k: keys.append(k) if isinstance(f[k], h5py.Dataset) and not k.endswith("Connection") else None)
        if not keys:
            return
        victim = keys[case["reject_pick"] % len(keys)]
        f2 = os.path.join(tmp, "case_0002.h5")
        shutil.copy(fname, f2)
        with h5py.File(f2, "a") as f:
            del f[victim]
        io3, _ = _build(case, fresh=True)
        try:
            io3.load(h5_file_name=f2)
        except Exception:  # noqa: BLE001 - any error is a rejection
            ctx.note(labels=["rejected_missing_dataset"])
            return
        only_grids_without_fields = victim.endswith("/Grid") and not any(g["fields"] for g in case["lag"])
        raise Violation(f"load() returned normally although the registered dataset '{victim}' is missing from the file",
                        key="lagrangian_grid_without_fields_not_loaded" if only_grids_without_fields else None)
    if cls != "IO" or not case["eul"]:
        return
    c2 = dict(case)
    p = float(case["perturb"])
    if mode == "origin":
        c2["origin"] = [v + p * max(1.0, abs(v)) if i == case["reject_pick"] % dim else v for i, v in enumerate(case["origin"])]
    elif mode == "dx":
        c2["dx"] = case["dx"] * (1 + p)
    else:
        g = list(case["grid"])
        g[case["reject_pick"] % dim] += 1
        c2["grid"] = g
        n = int(np.prod(g))
        c2["eul"] = [{**e, "bits": (e["bits"] * 8)[: n * (dim if e["vector"] else 1)]} for e in case["eul"]]
    if case.get("reject_flip", False):
        # the FILE is written for the deviating grid, the reader registers the original one
        fname = os.path.join(tmp, "case_0004.h5")
        io_w, _ = _build(c2, fresh=False)
        with ctx.repo_call("save (deviating grid)"):
            io_w.save(h5_file_name=fname, time=0.5)
        io3, _ = _build(case, fresh=True)
        reader, filec = case, c2
    else:
        io3, _ = _build(c2, fresh=True)
        reader, filec = c2, case
    try:
        io3.load(h5_file_name=fname)
    except Exception:  # noqa: BLE001
        ctx.note(labels=[f"rejected_{mode}_mismatch", "deviation_in_file" if case.get("reject_flip") else "deviation_in_reader"])
        return
    raise Violation(f"load() returned normally although the registered Eulerian {mode} differs from the file by {p:.3g} relative "
                    f"(reader: origin {reader['origin']}, dx {reader['dx']}, grid {reader['grid']}; file: origin {filec['origin']}, "
                    f"dx {filec['dx']}, grid {filec['grid']})")


PARTS = [
    Part(name="round_trip_layout_rejection", strategy=_strategy, body=_body, variants=_variants,
         examples={"quick": 720, "thorough": 14000}, shards={"quick": 12, "thorough": 12}),
]
# the same generator and oracle driven by libFuzzer with branch coverage of sopht/utils/io.py as feedback
from ..fuzz import make_fuzz_part  # noqa: E402

PARTS.append(make_fuzz_part("coverage_guided_round_trip", PARTS[0], instrument=["sopht.utils.io"],
                            runs={"quick": 600, "thorough": 60000}, max_time={"quick": 25, "thorough": 900}))
