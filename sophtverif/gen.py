"""Shared Hypothesis strategies (DESIGN section 2).  All cases are JSON-serialisable.

Dense arrays are *constructed* from a few drawn structural parameters plus (optionally) noise that
is a pure function of one drawn integer through numpy's Philox generator; see ``build_field``.
"""

from __future__ import annotations

import math

import numpy as np
from hypothesis import strategies as st

# ------------------------------------------------------------------------------------------------
# scalars
# ------------------------------------------------------------------------------------------------

precisions = st.sampled_from(["float32", "float64"])


def floats(lo, hi, width=64):
    """finite floats; subnormals are never requested (-Ofast kernels set FTZ/DAZ in-process)."""
    if width == 32:  # bounds must be representable: move them inwards onto the float32 grid
        l32, h32 = np.float32(lo), np.float32(hi)
        if float(l32) < lo:
            l32 = np.nextafter(l32, np.float32(np.inf))
        if float(h32) > hi:
            h32 = np.nextafter(h32, np.float32(-np.inf))
        lo, hi = float(l32), float(h32)
    return st.floats(min_value=lo, max_value=hi, allow_nan=False, allow_infinity=False,
                     allow_subnormal=False, width=width)


def np_dtype(name: str):
    return np.float32 if name == "float32" else np.float64


def log_uniform(lo: float, hi: float):
    """float in [lo, hi], uniform in the exponent (shrinks towards lo... towards 'simple')."""
    return floats(math.log10(lo), math.log10(hi)).map(lambda e: float(10.0 ** e))


def nice_or_log(lo: float, hi: float, nice=(1.0,)):
    nice = [v for v in nice if lo <= v <= hi]
    if not nice:
        return log_uniform(lo, hi)
    return st.one_of(st.sampled_from(nice), log_uniform(lo, hi))


# ------------------------------------------------------------------------------------------------
# shapes
# ------------------------------------------------------------------------------------------------


def grid_shape(dim: int, n_min: int, n_max: int, max_cells: int | None = None, long_axis: int | None = None):
    """Each extent independently in [n_min, n_max]; biased to non-cubic through independence.

    long_axis: in a third of the draws one (drawn) axis gets an extent in [17, long_axis] instead - beyond the block, slab
    and chunk sizes (16, 32) that blocked/tiled implementations use, at small cost because the other axes stay short."""
    ext = st.integers(min_value=n_min, max_value=n_max)
    s = st.tuples(*([ext] * dim)).map(list)
    if long_axis is not None and long_axis > max(17, n_max):
        def stretch(t):
            shape, ax, n, on = t
            shape = list(shape)
            if on == 0:
                shape[ax] = n
            return shape
        # the outermost array axis (index 0) is the one blocked / parallelised implementations partition: drawn twice as often;
        # lengths just above 16 and 32 are over-represented
        longs = st.one_of(st.integers(17, long_axis), st.sampled_from([n for n in (18, 20, 31, 33, 34, 36, 40, 47, 48, 49, 65, 70) if n <= long_axis]))
        s = st.tuples(s, st.sampled_from([0] + list(range(dim))), longs, st.integers(0, 2)).map(stretch)
    if max_cells is not None:
        def clip(shape):
            shape = list(shape)
            while int(np.prod(shape)) > max_cells:
                i = int(np.argmax(shape))
                shape[i] = max(n_min, shape[i] // 2)
                if all(v == n_min for v in shape):
                    break
            return shape
        s = s.map(clip)
    return s


# ------------------------------------------------------------------------------------------------
# fields
# ------------------------------------------------------------------------------------------------

# "stream": a field of one strict sign everywhere (a free-stream dominated velocity component: constant + smaller fluctuation)
FIELD_KINDS = ["zero", "constant", "poly", "bumps", "spikes", "checker", "noise", "mixed", "boxnoise", "stream"]


def field_spec(kinds=None, max_mag_exp: int = 6, allow_zero: bool = True):
    kinds = list(kinds or FIELD_KINDS)
    if not allow_zero and "zero" in kinds:
        kinds.remove("zero")
    coef = floats(-2.0, 2.0, 32)
    return st.fixed_dictionaries(
        {
            "kind": st.sampled_from(kinds),
            "scale_exp": st.integers(min_value=-max_mag_exp, max_value=max_mag_exp),
            "coefs": st.lists(coef, min_size=10, max_size=10),
            "bumps": st.lists(
                st.tuples(
                    floats(0.0, 1.0, 32), floats(0.0, 1.0, 32),
                    floats(0.0, 1.0, 32), floats(0.0625, 0.5, 32),
                    floats(-1.0, 1.0, 32),
                ).map(list),
                min_size=1, max_size=3,
            ),
            "spikes": st.lists(
                st.tuples(floats(0.0, 1.0, 32), floats(0.0, 1.0, 32),
                          floats(0.0, 1.0, 32), floats(-1.0, 1.0, 32)).map(list),
                min_size=1, max_size=6,
            ),
            "noise_key": st.integers(min_value=0, max_value=2**32 - 1),
            # sub-box (fractions of the extents) outside of which a "boxnoise" field is EXACTLY zero (compact support,
            # like the forcing of an immersed body)
            "box": st.lists(st.tuples(floats(0.0, 0.7, 32), floats(0.1, 0.6, 32)).map(list), min_size=3, max_size=3),
        }
    )


def _coords(shape):
    return np.meshgrid(*[np.arange(n, dtype=np.float64) for n in shape], indexing="ij")


def build_field(spec: dict, shape, dtype=np.float64, margin: int = 0) -> np.ndarray:
    """Deterministic ndarray from a spec.  ``margin`` cells next to every face are zeroed."""
    shape = tuple(int(n) for n in shape)
    dim = len(shape)
    kind = spec["kind"]
    grids = _coords(shape)
    unit = [g / max(n - 1, 1) for g, n in zip(grids, shape)]
    out = np.zeros(shape, dtype=np.float64)

    def add_poly():
        c = spec["coefs"]
        res = np.full(shape, c[0], dtype=np.float64)
        k = 1
        for a in range(dim):
            res += c[k] * (2 * unit[a] - 1)
            k += 1
        for a in range(dim):
            for b in range(a, dim):
                res += c[k % 10] * (2 * unit[a] - 1) * (2 * unit[b] - 1)
                k += 1
        return res

    def add_bumps():
        res = np.zeros(shape, dtype=np.float64)
        for b in spec["bumps"]:
            cen = b[:3][-dim:] if dim == 3 else b[:dim]
            sig = b[3]
            r2 = sum((u - c) ** 2 for u, c in zip(unit, cen))
            res += b[4] * np.exp(-r2 / (2 * sig * sig))
        return res

    def add_spikes():
        res = np.zeros(shape, dtype=np.float64)
        for s in spec["spikes"]:
            idx = tuple(min(n - 1, int(s[a] * n)) for a, n in enumerate(shape))
            res[idx] += s[3]
        return res

    def add_noise():
        rng = np.random.Generator(np.random.Philox(key=int(spec["noise_key"])))
        return rng.uniform(-1.0, 1.0, size=shape)

    def add_checker():
        par = sum(grids) % 2
        return (1.0 - 2.0 * par) * (spec["coefs"][0] if spec["coefs"][0] != 0 else 1.0)

    if kind == "zero":
        pass
    elif kind == "constant":
        out += spec["coefs"][0] if spec["coefs"][0] != 0 else 1.0
    elif kind == "poly":
        out += add_poly()
    elif kind == "bumps":
        out += add_bumps()
    elif kind == "spikes":
        out += add_spikes()
    elif kind == "checker":
        out += add_checker()
    elif kind == "noise":
        out += add_noise()
    elif kind == "boxnoise":
        box = spec.get("box") or [[0.25, 0.4]] * 3
        sl = []
        for a, n in enumerate(shape):
            lo_f, ext_f = box[(a + 3 - dim) % 3]
            lo = min(n - 1, int(lo_f * n))
            hi = min(n, max(lo + 1, lo + int(round(ext_f * n))))
            sl.append(slice(lo, hi))
        noise = add_noise()
        out[tuple(sl)] += (noise + np.sign(noise) * 0.25)[tuple(sl)]
    elif kind == "stream":
        c0 = spec["coefs"][0] if spec["coefs"][0] != 0 else 1.0
        out += c0 * (1.0 + 0.45 * add_noise())
    elif kind == "mixed":
        out += add_poly() + add_bumps() + add_spikes() + 0.25 * add_noise()
    else:
        raise ValueError(kind)
    out *= 2.0 ** int(spec["scale_exp"])
    if margin > 0:
        mask = np.zeros(shape, dtype=bool)
        sl = tuple(slice(margin, n - margin) if n - 2 * margin > 0 else slice(0, 0) for n in shape)
        mask[sl] = True
        out = np.where(mask, out, 0.0)
    out = out.astype(dtype)
    # subnormals are outside the input domain of the -Ofast (flush-to-zero) kernels
    out[np.abs(out) < np.finfo(dtype).tiny] = 0
    return out


def build_vector_field(specs, shape, dtype=np.float64, margin: int = 0) -> np.ndarray:
    return np.stack([build_field(s, shape, dtype, margin) for s in specs])


def vector_field_spec(ncomp: int, **kw):
    """ncomp component specs; with probability ~1/4 all components share the kind and support box of the first one
    (e.g. a vector field that is compactly supported as a whole)."""
    base = st.lists(field_spec(**kw), min_size=ncomp, max_size=ncomp)

    def couple(t):
        specs, same = t
        if same == 0 and len(specs) > 1:
            specs = [dict(sp, kind=specs[0]["kind"], box=specs[0].get("box")) for sp in specs]
        return specs

    return st.tuples(base, st.integers(0, 3)).map(couple)


# ------------------------------------------------------------------------------------------------
# rationals (for the exact interpreter)
# ------------------------------------------------------------------------------------------------


def rationals(max_num: int = 2**16, max_den: int = 64):
    return st.tuples(st.integers(-max_num, max_num), st.integers(1, max_den)).map(list)


def to_fraction(q):
    from fractions import Fraction

    return Fraction(int(q[0]), int(q[1]))


def rational_block(key: int, shape, max_num: int = 50, max_den: int = 12, allow_zero: bool = False):
    """object ndarray of Fractions, a pure function of the drawn integer key (Philox)."""
    from fractions import Fraction

    rng = np.random.Generator(np.random.Philox(key=int(key)))
    n = int(np.prod(shape))
    num = rng.integers(1, max_num + 1, size=n) * rng.choice([-1, 1], size=n)
    if allow_zero:
        num = num * (rng.integers(0, 8, size=n) > 0)
    den = rng.integers(1, max_den + 1, size=n)
    out = np.empty(n, dtype=object)
    out[:] = [Fraction(int(a), int(b)) for a, b in zip(num, den)]
    return out.reshape(shape)


block_keys = st.integers(min_value=0, max_value=2**32 - 1)
