"""C04 - transport, diffusion and forcing conserve total vorticity / transported scalar."""

from __future__ import annotations

from fractions import Fraction

import numpy as np
from hypothesis import strategies as st

from .. import capture, gen, kernels, simcfg
from ..interp import ExactGrid, eval_assignments_exact
from ..runner import Part, Violation

PROPERTY_ID = "C04"
LEVEL = "exploration"
RULE = (
    "Part grid_sum (real simulators): configurations as in C01 (all three simulator classes, filters, widths, "
    "both precisions) with vorticity/scalar and forcing supported >= reach+1 cells from the boundary "
    "(reach = forcing 1 + ENO 2 or rotational 1 + diffusion 1 + filter order, and >= zone width), ARBITRARY "
    "non-compact velocity, drawn nu, rho, dt (CFL <= 2): the float64 sum over the grid of every vorticity "
    "component / of the scalar is unchanged by one public time_step within 64*eps*S, S = sum of absolute "
    "flux terms. Non-trivial: velocity with both signs on every axis and field changed by > 1e-3 relative. "
    "Part face_flux (exact rationals): for every ENO3 front/back stencil pair (x,y in 2-D; x,y,z in 3-D) the "
    "amount the front kernel adds to cell i equals the amount the back kernel removes from cell i+1, as "
    "rationals, on blocks of drawn rationals with velocity patterns forcing each upwind branch and the tie "
    "u_i+u_{i+1}=0. Part block_sum (exact rationals): every conservative update stencil (ENO all axes, "
    "diffusion, forcing/penalised curl updates, filter Laplacians) applied to a compactly supported block has "
    "exactly zero net sum. Distinct = digest of the case."
)
ASSUMPTIONS = [
    "fields vanish within the reach of one step from the boundary, as the property states",
    "exact parts are randomized identity tests over rationals",
]
BUDGET_S = {"quick": 160.0, "thorough": 2400.0}

_BUILT = {}


def _ensure():
    if "done" not in _BUILT:
        kernels.build_all(np.float64, False)
        _BUILT["done"] = True


def _reach(cfg):
    """Support margin (cells from the boundary) within which field and forcing must vanish.

    transport reach r = forcing 1 + (ENO 2 | rotational 1) + diffusion 1 + filter order; the field
    after transport must still vanish in the damping zone (depth < width) and in the boundary ring
    the kernels do not update, hence r + max(width, 1).
    """
    kind = cfg["sim"]
    if kind == "ns2d":
        r = (1 if cfg["with_forcing"] else 0) + 2 + 1
    elif kind == "ns3d":
        r = (1 if cfg["with_forcing"] else 0) + 1 + 1 + (cfg["filter"]["order"] if cfg["filter"] else 0)
    else:
        r = 2 + 1
    return r + max(cfg["width"], 1)


# ------------------------------------------------------------------------------------------------
# Part A
# ------------------------------------------------------------------------------------------------


def _sum_strategy(tier):
    @st.composite
    def case(draw):
        cfg = draw(simcfg.ns_config(tier, n_min_fn=lambda c: 2 * _reach(c) + 2,
                                    n_max={2: 30 if tier == "quick" else 64, 3: 18 if tier == "quick" else 26},
                                    fastdiag=True))
        dim = simcfg.sim_dim(cfg["sim"])
        ncomp = {"ns2d": 1, "ns3d": 3, "passive2d": 1, "passive3d_scalar": 1, "passive3d_vector": 3}[cfg["sim"]]
        fk = ["constant", "poly", "bumps", "spikes", "checker", "noise", "mixed", "boxnoise"]
        return {
            "cfg": cfg,
            "primary": draw(gen.vector_field_spec(ncomp, kinds=fk, max_mag_exp=5)),
            "velocity": draw(gen.vector_field_spec(dim, kinds=["poly", "noise", "mixed", "checker", "bumps", "stream"], max_mag_exp=3)),
            "forcing": draw(gen.vector_field_spec(dim, kinds=fk, max_mag_exp=5)),
            "free_stream": draw(st.lists(st.one_of(gen.floats(-2.0, 2.0, 32), gen.floats(-2.0, 2.0, 32), st.just(0.0)), min_size=dim, max_size=dim)),
            "dt_frac": draw(gen.floats(0.1, 2.0, 32)),
            # what a real run does around the step under test: an earlier step on the same object (dirty scratch buffers),
            # public queries between setting the state and stepping, dt taken from the simulator itself
            "prelude": draw(st.lists(st.sampled_from(["prev_step", "query_dt", "query_div"]), max_size=3, unique=True)),
            "dt_from_sim": draw(st.booleans()),
            "primary_scale_exp": draw(st.one_of(st.just(0), st.just(0), st.integers(-24, 16))),
            "prev_primary": draw(gen.vector_field_spec(ncomp, kinds=["noise", "mixed", "constant"], max_mag_exp=4)),
        }

    return case()


def _sum_body(case, ctx):
    cfg = case["cfg"]
    kind = cfg["sim"]
    dim = simcfg.sim_dim(kind)
    real_t = gen.np_dtype(cfg["dtype"])
    eps = float(np.finfo(real_t).eps)
    shape = tuple(cfg["shape"])
    m = _reach(cfg)
    with ctx.repo_call(f"constructing simulator {kind}"):
        sim = simcfg.build_sim(cfg)
    dx = float(sim.dx)
    prim = simcfg.primary_field_of(sim, cfg)
    is_ns = kind.startswith("ns")
    prelude = list(case.get("prelude", []))
    if "prev_step" in prelude:
        # an earlier step of the same object on unrelated (non-compact) data: leaves every scratch buffer dirty
        pp = gen.build_vector_field(case["prev_primary"], shape, real_t)
        prim[...] = pp[0] if prim.ndim == dim else pp
        sim.velocity_field[...] = gen.build_vector_field(case["velocity"], shape, real_t)
        um = float(np.max(np.sum(np.abs(sim.velocity_field.astype(np.float64)), axis=0)))
        with ctx.repo_call("earlier time_step on the same simulator"):
            if is_ns:
                sim.time_step(dt=simcfg.stable_dt(cfg, dx, um, 0.5), free_stream_velocity=np.array(case["free_stream"]))
            else:
                sim.time_step(dt=simcfg.stable_dt(cfg, dx, um, 0.5))
    pf = gen.build_vector_field(case["primary"], shape, real_t, margin=m) * real_t(2.0 ** int(case.get("primary_scale_exp", 0)))
    prim[...] = pf[0] if prim.ndim == dim else pf
    sim.velocity_field[...] = gen.build_vector_field(case["velocity"], shape, real_t)
    fterm = 0.0
    umax = float(np.max(np.sum(np.abs(sim.velocity_field.astype(np.float64)), axis=0)))
    with ctx.repo_call("public queries before the step"):
        if "query_dt" in prelude:
            sim.compute_stable_timestep()
        if "query_div" in prelude and kind == "ns3d":
            sim.get_vorticity_divergence_l2_norm()
        dt = simcfg.choose_dt(sim, cfg, dx, umax, case["dt_frac"], bool(case.get("dt_from_sim", False)))
    if is_ns and cfg["with_forcing"]:
        sim.eul_grid_forcing_field[...] = gen.build_vector_field(case["forcing"], shape, real_t, margin=m)
        fterm = dt / (2 * dx * cfg["rho"]) * 4 * float(np.sum(np.abs(sim.eul_grid_forcing_field.astype(np.float64))))
    p0 = prim.astype(np.float64).copy()
    comps = p0.reshape((-1, *shape))
    before = comps.sum(axis=tuple(range(1, dim + 1)))
    absum = float(np.sum(np.abs(comps)))
    uinf = float(np.max(np.abs(sim.velocity_field.astype(np.float64))))
    with ctx.repo_call("time_step"):
        if is_ns:
            sim.time_step(dt=dt, free_stream_velocity=np.array(case["free_stream"]))
        else:
            sim.time_step(dt=dt)
    p1 = prim.astype(np.float64)
    after = p1.reshape((-1, *shape)).sum(axis=tuple(range(1, dim + 1)))
    S = (absum + float(np.sum(np.abs(p1)))) * (1 + 8 * dim * dt / dx * uinf + 4 * dim * cfg["nu"] * dt / dx**2
                                                 + (2.0 ** cfg["filter"]["order"] if cfg.get("filter") else 0)) + fterm
    tol = 64 * eps * S + 64 * float(np.finfo(real_t).tiny) * p0.size
    d = np.abs(after - before)
    ctx.extra["max_err_over_tol"] = max(ctx.extra.get("max_err_over_tol", 0.0), float(np.max(d)) / tol if tol > 0 else 0.0)
    if not np.all(np.isfinite(after)) or float(np.max(d)) > tol:
        c = int(np.argmax(d))
        raise Violation(f"grid sum of component {c} changed from {before[c]!r} to {after[c]!r} (|diff| {d[c]:.3e} > tol {tol:.3e}) "
                        f"with fields supported {m} cells inside (cfg {cfg})")
    u = sim.velocity_field.astype(np.float64) if not is_ns else gen.build_vector_field(case["velocity"], shape, np.float64)
    both = all(bool(np.any(u[c] > 0)) and bool(np.any(u[c] < 0)) for c in range(dim))
    changed = float(np.max(np.abs(p1 - p0))) > 1e-3 * float(np.max(np.abs(p0)) + 1e-300)
    ctx.note(nontrivial=both and changed and absum > 0,
             labels=simcfg.config_labels(cfg) + [f"prelude_{q}" for q in prelude] + (["dt_from_simulator"] if case.get("dt_from_sim") else []))


# ------------------------------------------------------------------------------------------------
# Part B: face-flux equality
# ------------------------------------------------------------------------------------------------

PAIRS = [(2, "x"), (2, "y"), (3, "x"), (3, "y"), (3, "z")]


def _q(lo=1, hi=50, den=12):
    return st.tuples(st.sampled_from([-1, 1]), st.integers(lo, hi), st.integers(1, den)).map(lambda t: [t[0] * t[1], t[2]])


def _face_variants(tier):
    return [list(pr) for pr in PAIRS]


def _face_strategy(tier, pair):
    @st.composite
    def case(draw):
        dim, axis = pair
        n = 7
        return {
            "dim": dim, "axis": axis,
            "field_key": draw(gen.block_keys),
            "velocity_key": draw(gen.block_keys),
            # explicit values around the tested face (cells i-2..i+3 along the axis): these shrink
            "line_f": draw(st.lists(_q(), min_size=6, max_size=6)),
            "line_u": draw(st.lists(_q(), min_size=6, max_size=6)),
            # pattern imposed on (u_i, u_{i+1}) at the tested face
            "pattern": draw(st.sampled_from(["as_drawn", "both_pos", "both_neg", "tie", "pos_dominant", "neg_dominant"])),
            "inv_dx": draw(_q(1, 30, 7)),
            "flux0": draw(st.lists(_q(), min_size=2, max_size=2)),
        }

    return case()


def _fill(dim, n, vals):
    arr = np.empty((n,) * dim, dtype=object)
    arr.reshape(-1)[:] = [gen.to_fraction(v) for v in vals]
    return arr


def _face_body(case, ctx):
    _ensure()
    dim, axis = case["dim"], case["axis"]
    n = 7
    comp = "xyz".index(axis)
    a = dim - 1 - comp  # array axis
    f = gen.rational_block(case["field_key"], (n,) * dim)
    u = gen.rational_block(case["velocity_key"], (n,) * dim)
    for k in range(6):
        idx = tuple(1 + k if q == a else 3 for q in range(dim))
        f[idx] = gen.to_fraction(case["line_f"][k])
        u[idx] = gen.to_fraction(case["line_u"][k])
    ci = tuple([3] * dim)
    cj = tuple(3 + (1 if k == a else 0) for k in range(dim))
    pat = case["pattern"]
    if pat == "both_pos":
        u[ci], u[cj] = abs(u[ci]), abs(u[cj])
    elif pat == "both_neg":
        u[ci], u[cj] = -abs(u[ci]), -abs(u[cj])
    elif pat == "tie":
        u[cj] = -u[ci]
    elif pat == "pos_dominant":
        u[ci], u[cj] = abs(u[ci]) + abs(u[cj]), -abs(u[cj])
    elif pat == "neg_dominant":
        u[ci], u[cj] = -abs(u[ci]) - abs(u[cj]), abs(u[cj])
    s = gen.to_fraction(case["inv_dx"])
    front = capture.stencil(f"_advection_flux_{axis}_front_conservative_eno3_stencil_{dim}d")
    back = capture.stencil(f"_advection_flux_{axis}_back_conservative_eno3_stencil_{dim}d")
    a0, b0 = (gen.to_fraction(v) for v in case["flux0"])

    def acc(cell, base):
        def access(name, offs):
            idx = tuple(c + o for c, o in zip(cell, offs))
            if name == "field":
                return f[idx]
            if name == f"velocity_{axis}":
                return u[idx]
            if name == "advection_flux" and all(o == 0 for o in offs):
                return base
            raise Violation(f"ENO3 {axis} kernel reads unexpected field/offset {name}{list(offs)}")
        return access

    added_to_i = eval_assignments_exact(front, acc(ci, a0), {"inv_dx": s})["advection_flux"] - a0
    removed_from_j = b0 - eval_assignments_exact(back, acc(cj, b0), {"inv_dx": s})["advection_flux"]
    if added_to_i != removed_from_j:
        raise Violation(f"{dim}-D ENO3 {axis}-face flux is not conservative: front kernel adds {added_to_i} to cell i, "
                        f"back kernel removes {removed_from_j} from cell i+1 (u_i={u[ci]}, u_i+1={u[cj]}, pattern {pat})")
    tie = (u[ci] + u[cj]) == 0
    ctx.note(nontrivial=True, labels=[f"{dim}d_{axis}", "tie" if tie else ("upwind_left" if u[ci] + u[cj] > 0 else "upwind_right")])


# ------------------------------------------------------------------------------------------------
# Part C: exact block sums
# ------------------------------------------------------------------------------------------------

BLOCKS = ["eno_2d", "eno_3d", "diffusion_2d", "diffusion_3d", "forcing_2d", "forcing_3d", "penalised_2d",
          "penalised_3d", "filter_x", "filter_y", "filter_z"]


def _block_variants(tier):
    return list(BLOCKS)


def _block_strategy(tier, b):
    @st.composite
    def case(draw):
        dim = 2 if b.endswith("2d") else 3
        n = 10 if b.startswith("eno") else 6
        nf = {"eno": 1 + dim, "dif": 1, "for": dim, "pen": 2 * dim, "fil": 1}[b[:3]]
        return {"block": b, "n": n, "keys": draw(st.lists(gen.block_keys, min_size=nf, max_size=nf)),
                "centre": draw(st.lists(_q(), min_size=nf, max_size=nf)),
                "p": draw(_q(1, 30, 7))}

    return case()


def _compact(arr, margin):
    out = np.empty(arr.shape, dtype=object)
    out[...] = Fraction(0)
    sl = (slice(margin, -margin),) * arr.ndim
    out[sl] = arr[sl]
    return out


def _total(a):
    t = Fraction(0)
    for v in a.reshape(-1):
        t += v
    return t


def _block_body(case, ctx):
    _ensure()
    b, n = case["block"], case["n"]
    dim = 2 if b.endswith("2d") else 3
    p = gen.to_fraction(case["p"])
    g = ExactGrid((n,) * dim)
    vals = [gen.rational_block(k, (n,) * dim) for k in case["keys"]]
    for v, c in zip(vals, case["centre"]):
        v[(n // 2,) * dim] = gen.to_fraction(c)
    out = g.zeros("out")
    if b.startswith("eno"):
        g.set("field", _compact(vals[0], 4))  # support +- 2 stays inside the iterated cells [2, n-3]
        for c, ax in enumerate("xyz"[:dim]):
            g.set(f"u{ax}", vals[1 + c])  # arbitrary, non-compact velocity
        for ax in "xyz"[:dim]:
            for side in ("front", "back"):
                g.apply(capture.stencil(f"_advection_flux_{ax}_{side}_conservative_eno3_stencil_{dim}d"),
                        {"advection_flux": "out", "field": "field", f"velocity_{ax}": f"u{ax}"}, {"inv_dx": p})
    elif b.startswith("diffusion"):
        g.set("field", _compact(vals[0], 2))
        g.apply(capture.stencil(f"_diffusion_stencil_{dim}d"), {"diffusion_flux": "out", "field": "field"}, {"prefactor": p})
    elif b.startswith("filter"):
        ax = b[-1]
        g.set("field", _compact(vals[0], 2))
        g.apply(capture.stencil(f"_laplacian_filter_3d_{ax}"), {"filter_flux": "out", "field": "field"}, {})
    elif b in ("forcing_2d", "penalised_2d"):
        g.set("Fx", _compact(vals[0], 2))
        g.set("Fy", _compact(vals[1], 2))
        if b == "forcing_2d":
            g.apply(capture.stencil("_update_vorticity_from_velocity_forcing_stencil_2d"),
                    {"vorticity_field": "out", "velocity_forcing_field_x": "Fx", "velocity_forcing_field_y": "Fy"},
                    {"prefactor": p})
        else:
            g.set("Gx", _compact(vals[2], 2))
            g.set("Gy", _compact(vals[3], 2))
            g.apply(capture.stencil("_update_vorticity_from_penalised_velocity_stencil_2d"),
                    {"vorticity_field": "out", "penalised_velocity_field_x": "Gx", "penalised_velocity_field_y": "Gy",
                     "velocity_field_x": "Fx", "velocity_field_y": "Fy"}, {"prefactor": p})
    else:
        names = ["Fx", "Fy", "Fz", "Gx", "Gy", "Gz"]
        for nm, v in zip(names, vals):
            g.set(nm, _compact(v, 2))
        tot = Fraction(0)
        for cn in "xyz":
            o = [q for q in "xyz" if q != cn]
            out = g.zeros("out")
            if b == "forcing_3d":
                binding = {f"vorticity_field_{cn}": "out", **{f"velocity_forcing_field_{q}": f"F{q}" for q in o}}
                g.apply(capture.stencil(f"_update_vorticity_from_velocity_forcing_{cn}_comp_stencil_3d"), binding, {"prefactor": p})
            else:
                binding = {f"vorticity_field_{cn}": "out", **{f"velocity_field_{q}": f"F{q}" for q in o},
                           **{f"penalised_velocity_field_{q}": f"G{q}" for q in o}}
                g.apply(capture.stencil(f"_update_vorticity_from_penalised_velocity_{cn}_comp_stencil_3d"), binding, {"prefactor": p})
            t = _total(g.fields["out"])
            if t != 0:
                raise Violation(f"{b}: component {cn} update of a compactly supported forcing has net sum {t} != 0")
        ctx.note(nontrivial=True, labels=[b])
        return
    t = _total(g.fields["out"])
    if t != 0:
        raise Violation(f"{b}: update of a compactly supported field has net sum {t} != 0 (scheme not in conservation form)")
    ctx.note(nontrivial=True, labels=[b])


PARTS = [
    Part(name="grid_sum", strategy=_sum_strategy, body=_sum_body,
         examples={"quick": 160, "thorough": 4000}, shards={"quick": 8, "thorough": 16}),
    Part(name="face_flux", strategy=_face_strategy, body=_face_body,
         examples={"quick": 1200, "thorough": 40000}, shards={"quick": 5, "thorough": 10}, variants=_face_variants),
    Part(name="block_sum", strategy=_block_strategy, body=_block_body,
         examples={"quick": 330, "thorough": 6000}, shards={"quick": 6, "thorough": 11}, variants=_block_variants),
]
