"""C20 - time-stepping kernels realise their nominal integration scheme."""

from __future__ import annotations

from fractions import Fraction

import numpy as np
from hypothesis import strategies as st

from .. import gen
from ..runner import Part, Violation

PROPERTY_ID = "C20"
LEVEL = "exploration"
RULE = (
    "Part euler_and_rk3_compiled: Hypothesis draws a kernel in {advection Euler 2-D, 3-D scalar, 3-D vector; diffusion "
    "Euler 2-D, 3-D scalar, 3-D vector; vortex-stretching Euler; vortex-stretching SSP-RK3}, a grid shape (non-cubic), "
    "precision, thread count, field/velocity contents (all kinds), a memory layout of the arrays (contiguous, z-slab of a ghost-padded "
    "array, sub-block, Fortran order) and a step size over 6 decades. Oracle (differential "
    "against the library's OWN separately generated flux kernel): Euler kernels must return field + flux(field; step) "
    "(float64 sum, 16*eps*(|field|+|flux|)); SSP-RK3 must return w + A w + A^2 w/2 + A^3 w/6 with A^k w obtained by "
    "repeated calls of the public flux kernel with the FULL step (64*eps*S). Part rk3_exact: the repo's SSP-RK3 and "
    "Euler wrappers are executed in exact rational arithmetic (object arrays of Fractions routed through the IR "
    "interpreter) on a 5^3 block with drawn rational fields and step; result must EQUAL the polynomial in the exact "
    "flux operator. Non-trivial: field and velocity non-constant and step*|u| >= 1e-3 so that the flux changes the field "
    "measurably; for RK3 additionally |A^3 w| > 0. Distinct = digest of case."
    " Also zero steps, 17..50 planes along the outermost axis, pooled scratch buffers, and part fresh_process_generation_order (kernels generated in a new process after a drawn list of related generator calls)."
)
ASSUMPTIONS = [
    "velocity frozen during the step (as the kernels take it)",
    "exact part: scalar arguments given as floats (0.75, 1/3, 2/3) are rationalised with limit_denominator(10**6)",
]
BUDGET_S = {"quick": 150.0, "thorough": 2000.0}

KERNELS = ["adv2d", "adv3d_scalar", "adv3d_vector", "dif2d", "dif3d_scalar", "dif3d_vector", "stretch_euler", "stretch_rk3"]
_K = {}


def _variants(tier):
    return list(KERNELS)


def _get(name, real_t, thr, shape=None):
    import sopht.numeric.eulerian_grid_ops as spne

    key = (name, real_t.__name__, thr, shape if name == "stretch_rk3" else None)
    if key in _K:
        return _K[key]
    kw = dict(real_t=real_t, num_threads=thr)
    if name == "adv2d":
        v = (spne.gen_advection_timestep_euler_forward_conservative_eno3_pyst_kernel_2d(**kw),
             spne.gen_advection_flux_conservative_eno3_pyst_kernel_2d(**kw))
    elif name.startswith("adv3d"):
        v = (spne.gen_advection_timestep_euler_forward_conservative_eno3_pyst_kernel_3d(field_type=name.split("_")[1], **kw),
             spne.gen_advection_flux_conservative_eno3_pyst_kernel_3d(**kw))
    elif name == "dif2d":
        v = (spne.gen_diffusion_timestep_euler_forward_pyst_kernel_2d(**kw), spne.gen_diffusion_flux_pyst_kernel_2d(**kw))
    elif name.startswith("dif3d"):
        v = (spne.gen_diffusion_timestep_euler_forward_pyst_kernel_3d(field_type=name.split("_")[1], **kw),
             spne.gen_diffusion_flux_pyst_kernel_3d(**kw))
    elif name == "stretch_euler":
        v = (spne.gen_vorticity_stretching_timestep_euler_forward_pyst_kernel_3d(**kw),
             spne.gen_vorticity_stretching_flux_pyst_kernel_3d(**kw))
    else:
        # the mid-step buffer is one block of a scratch pool (layout "pooled" takes the flux buffer and the fields from the same pool)
        pool = np.zeros((4, 3, *shape), dtype=real_t)
        mid = pool[1]
        v = (spne.gen_vorticity_stretching_timestep_ssprk3_pyst_kernel_3d(midstep_buffer_vector_field=mid, **kw),
             spne.gen_vorticity_stretching_flux_pyst_kernel_3d(**kw), mid, pool)
    _K[key] = v
    return v


def _strategy(tier, name):
    hi2, hi3 = (40, 14) if tier == "thorough" else (20, 9)

    @st.composite
    def case(draw):
        dim = 2 if name.endswith("2d") else 3
        fk = ["constant", "poly", "bumps", "spikes", "checker", "noise", "mixed", "boxnoise", "stream"]
        return {
            "kernel": name,
            # a third of the cases: more planes along the outermost axis than any slab / block size in use (16, 32)
            "shape": draw(st.one_of(gen.grid_shape(dim, 5, hi2 if dim == 2 else hi3, long_axis=70 if dim == 2 else 40),
                                    gen.grid_shape(dim, 5, hi2 if dim == 2 else hi3, long_axis=70 if dim == 2 else 40),
                                    st.tuples(st.integers(17, 50), *([st.integers(5, 7)] * (dim - 1))).map(list))),
            "dtype": draw(gen.precisions),
            "threads": draw(st.sampled_from([False, 1, 2])),
            "field": draw(gen.vector_field_spec(3, kinds=fk, max_mag_exp=5)),
            "velocity": draw(gen.vector_field_spec(3, kinds=fk, max_mag_exp=3)),
            "step": draw(st.one_of(gen.log_uniform(1e-4, 1e2), gen.log_uniform(1e-4, 1e2), gen.log_uniform(1e-4, 1e2), gen.log_uniform(1e-4, 1e2),
                                  st.just(0.0))),  # a zero step / zero viscosity is admissible: the kernel must return the field
            "poison": draw(st.booleans()),
            # memory layout of the field / velocity / work buffers handed to the time-step kernel
            "layout": draw(st.sampled_from(["contig", "contig", "zslab", "subblock", "fortran", "pooled"])),
        }

    return case()


def _as_layout(a, layout, nsp):
    """same values in a differently laid out array (the kernels take arbitrary strided views)."""
    if layout == "contig":
        return a.copy()
    lead = a.ndim - nsp
    if layout == "zslab":  # interior slab along the first spatial axis of a ghost-padded array
        pad = [(0, 0)] * lead + [(2, 2)] + [(0, 0)] * (nsp - 1)
        base = np.pad(a, pad, constant_values=77.0)
        return base[(slice(None),) * lead + (slice(2, -2),)]
    if layout == "subblock":
        pad = [(0, 0)] * lead + [(1, 2)] * nsp
        base = np.pad(a, pad, constant_values=77.0)
        return base[(slice(None),) * lead + tuple(slice(1, 1 + n) for n in a.shape[lead:])]
    if layout == "fortran":
        return np.asfortranarray(a)
    if layout == "pooled":  # stand-alone use: a block of a private pool (the RK3 body takes blocks of the kernel's own pool instead)
        pool = np.full((3, *a.shape), 77.0, dtype=a.dtype)
        pool[1] = a
        return pool[1]
    raise ValueError(layout)


def _body(case, ctx):
    name = case["kernel"]
    dim = 2 if name.endswith("2d") else 3
    shape = tuple(case["shape"])
    real_t = gen.np_dtype(case["dtype"])
    eps = float(np.finfo(real_t).eps)
    tiny = float(np.finfo(real_t).tiny)
    for gname, gopts in case.get("pre_generate", []):
        # other kernels of the same operator family requested earlier in this (fresh) process
        from .. import kernels as _kern

        needs = "ssprk3" if "ssprk3" in gname else None
        with ctx.repo_call(f"generating {gname}({gopts})"):
            _kern.build(gname, dict(gopts), needs, real_t, case["threads"], shape=shape)
    with ctx.repo_call(f"generating {name}"):
        ks = _get(name, real_t, case["threads"], shape)
    vec = name.endswith("vector") or name.startswith("stretch")
    f = gen.build_vector_field(case["field"], shape, real_t)
    f = f if vec else f[0]
    u = gen.build_vector_field(case["velocity"][:dim], shape, real_t)
    umax = float(np.max(np.abs(u))) + 1e-30
    fmax = float(np.max(np.abs(f))) + 1e-30
    # keep step*|u| (resp. step for diffusion) within [1e-4, 4] so the comparison is meaningful in float32
    step = case["step"]
    if name.startswith("dif"):
        step = min(step, 4.0)
    else:
        step = min(step, 4.0 / umax)
    step = real_t(step)
    f0 = f.copy()
    u0 = u.copy()
    lay = case.get("layout", "contig")
    f = _as_layout(f, lay, dim)
    u = _as_layout(u, lay, dim)
    buf_fill = 1e30 if case["poison"] else 0.0

    def buf(shape_, fill):
        return _as_layout(np.full(shape_, fill, dtype=real_t), lay, dim)


    def flux_of(x, s):
        """library flux kernel applied to x (float arrays of real_t), returns real_t array."""
        out = np.zeros_like(x)
        if name.startswith("adv"):
            comps = x if x.ndim > dim else x[None]
            res = []
            for c in comps:
                b = np.zeros(shape, dtype=real_t)
                ks[1](advection_flux=b, field=np.ascontiguousarray(c), velocity=u0, inv_dx=-s)
                res.append(b)
            out = np.stack(res) if x.ndim > dim else res[0]
        elif name.startswith("dif"):
            comps = x if x.ndim > dim else x[None]
            res = []
            for c in comps:
                b = np.full(shape, 7.0, dtype=real_t)
                ks[1](diffusion_flux=b, field=np.ascontiguousarray(c), prefactor=s)
                res.append(b)
            out = np.stack(res) if x.ndim > dim else res[0]
        else:
            ks[1](vorticity_stretching_flux_field=out, vorticity_field=x, velocity_field=u0, prefactor=s)
        return out

    with ctx.repo_call(f"{name} time-step kernel"):
        if name == "adv2d" or name == "adv3d_scalar":
            ks[0](field=f, advection_flux=buf(shape, buf_fill), velocity=u, dt_by_dx=step)
        elif name == "adv3d_vector":
            ks[0](vector_field=f, advection_flux=buf(shape, buf_fill), velocity=u, dt_by_dx=step)
        elif name in ("dif2d", "dif3d_scalar"):
            ks[0](field=f, diffusion_flux=buf(shape, buf_fill), nu_dt_by_dx2=step)
        elif name == "dif3d_vector":
            ks[0](vector_field=f, diffusion_flux=buf(shape, buf_fill), nu_dt_by_dx2=step)
        else:
            fluxbuf = buf((3, *shape), buf_fill)
            if name == "stretch_rk3":
                ks[2][...] = buf_fill
                if lay == "pooled":
                    # vorticity, flux and mid-step buffer are blocks of ONE scratch allocation (same owner array, disjoint memory)
                    pool = ks[3]
                    pool[0] = f
                    pool[2] = buf_fill
                    f, fluxbuf = pool[0], pool[2]
            ks[0](vorticity_field=f, velocity_field=u, vorticity_stretching_flux_field=fluxbuf, dt_by_2_dx=step)
    if np.ascontiguousarray(u).tobytes() != u0.tobytes():
        raise Violation(f"{name}: velocity field modified by the time-step kernel")
    with ctx.repo_call(f"{name} flux kernel"):
        a1 = flux_of(f0, step)
    F0 = f0.astype(np.float64)
    if name != "stretch_rk3":
        want = F0 + a1.astype(np.float64)
        # the flux is a sum of terms that may cancel; the two separately invoked kernels may round that sum differently
        # (vectorised vs remainder loops depend on the memory layout), so the scale is the magnitude of the TERMS
        if name.startswith("dif"):
            s_terms = 4 * dim * float(step) * fmax
        elif name.startswith("adv"):
            s_terms = 8 * dim * float(step) * umax * fmax
        else:
            s_terms = 6 * float(step) * umax * fmax
        tol = 16 * eps * (np.abs(F0) + np.abs(a1.astype(np.float64)) + s_terms) + 64 * tiny
        nontrivial = float(np.max(np.abs(a1))) > 1e-3 * fmax
    else:
        with ctx.repo_call("flux kernel (A^2, A^3)"):
            a2 = flux_of(a1, step)
            a3 = flux_of(a2, step)
        A1, A2, A3 = (a.astype(np.float64) for a in (a1, a2, a3))
        want = F0 + A1 + A2 / 2 + A3 / 6
        q = float(step) * 6 * umax
        tol = 64 * eps * fmax * (1 + q) ** 3 + 64 * tiny
        nontrivial = float(np.max(np.abs(A3))) > 1e-6 * fmax
    err = np.abs(f.astype(np.float64) - want)
    if not np.all(np.isfinite(f)) or np.any(err > tol):
        i = np.unravel_index(int(np.argmax(err - tol)), err.shape)
        raise Violation(f"{name}: time-step kernel result {float(f[i])!r} != scheme built from the library's own flux kernel "
                        f"{float(want[i])!r} at {tuple(int(q) for q in i)} (step {float(step):.4g}, shape {list(shape)}, {case['dtype']})")
    ctx.extra["max_err_over_tol"] = max(ctx.extra.get("max_err_over_tol", 0.0), float(np.max(err / tol)))
    ctx.note(nontrivial=nontrivial and len(set(shape)) > 1, labels=[name, case["dtype"], "poisoned_buffers" if case["poison"] else "zero_buffers", "layout_" + lay])


# ------------------------------------------------------------------------------------------------
# exact execution of the repo's wrappers
# ------------------------------------------------------------------------------------------------

EXACT_KERNELS = ["stretch_rk3", "stretch_euler", "dif3d_vector", "adv3d_scalar", "adv2d", "dif2d"]


def _exact_variants(tier):
    return list(EXACT_KERNELS)


def _exact_strategy(tier, name):
    @st.composite
    def case(draw):
        return {"kernel": name, "keys": draw(st.lists(gen.block_keys, min_size=6, max_size=6)),
                "step": draw(st.tuples(st.integers(1, 40), st.integers(1, 60)).map(list)),
                "n": draw(st.sampled_from([5, 6]))}

    return case()


def _obj(a):
    out = np.empty(a.shape, dtype=object)
    out[...] = a
    return out


def _exact_body(case, ctx):
    name = case["kernel"]
    dim = 2 if name.endswith("2d") else 3
    n = case["n"] if not name.startswith("adv") else 7
    shape = (n,) * dim
    with ctx.repo_call(f"generating {name}"):
        ks = _get(name, np.float64, False, shape)
    step = gen.to_fraction(case["step"])
    blocks = [gen.rational_block(k, shape, max_num=20, max_den=6) for k in case["keys"]]
    vec = name.endswith("vector") or name.startswith("stretch")
    w0 = np.stack(blocks[:3]) if vec else blocks[0]
    u = np.stack(blocks[3:3 + dim])
    w = w0.copy()
    zero = Fraction(0)

    def zeros(sh):
        z = np.empty(sh, dtype=object)
        z[...] = zero
        return z

    def flux_of(x):
        if name.startswith("stretch"):
            out = zeros(x.shape)
            ks[1](vorticity_stretching_flux_field=out, vorticity_field=x, velocity_field=u, prefactor=step)
            return out
        comps = x if x.ndim > dim else x[None]
        res = []
        for c in comps:
            b = zeros(shape)
            if name.startswith("adv"):
                ks[1](advection_flux=b, field=c, velocity=u, inv_dx=-step)
            else:
                ks[1](diffusion_flux=b, field=c, prefactor=step)
            res.append(b)
        return np.stack(res) if x.ndim > dim else res[0]

    with ctx.repo_call(f"{name} (exact backend)"):
        if name == "stretch_rk3":
            ks[2].__class__  # midstep buffer is a float array owned by the generator: rebuild with object dtype
            import sopht.numeric.eulerian_grid_ops as spne

            mid = zeros((3, *shape))
            k = spne.gen_vorticity_stretching_timestep_ssprk3_pyst_kernel_3d(real_t=np.float64, midstep_buffer_vector_field=mid,
                                                                             num_threads=False)
            k(vorticity_field=w, velocity_field=u, vorticity_stretching_flux_field=zeros((3, *shape)), dt_by_2_dx=step)
        elif name == "stretch_euler":
            ks[0](vorticity_field=w, velocity_field=u, vorticity_stretching_flux_field=zeros((3, *shape)), dt_by_2_dx=step)
        elif name == "dif3d_vector":
            ks[0](vector_field=w, diffusion_flux=zeros(shape), nu_dt_by_dx2=step)
        elif name in ("adv3d_scalar", "adv2d"):
            ks[0](field=w, advection_flux=zeros(shape), velocity=u, dt_by_dx=step)
        else:
            ks[0](field=w, diffusion_flux=zeros(shape), nu_dt_by_dx2=step)
        a1 = flux_of(w0)
        if name == "stretch_rk3":
            a2 = flux_of(a1)
            a3 = flux_of(a2)
            want = w0 + a1 + a2 / 2 + a3 / 6
        else:
            want = w0 + a1
    bad = np.argwhere(w != want)
    if len(bad):
        i = tuple(int(q) for q in bad[0])
        raise Violation(f"{name} (exact arithmetic): kernel returns {w[i]} but the nominal scheme gives {want[i]} at {i} (step {step})")
    ctx.note(nontrivial=True, labels=[name])


# ------------------------------------------------------------------------------------------------
# the same oracle with the kernels generated in a FRESH process after a drawn list of related generator calls
# ------------------------------------------------------------------------------------------------

_FAMILY = {"adv": "advection", "dif": "diffusion", "str": "stretching"}


def _fresh_strategy(tier, name):
    from .. import kernels as _kern

    dim = "2d" if name.endswith("2d") else "3d"
    fam = [(g, o) for g, o, _n in _kern.generator_options() if _FAMILY[name[:3]] in g and g.endswith(dim)]

    @st.composite
    def case(draw):
        c = draw(_strategy(tier, name))
        c["poison"] = True
        pre = draw(st.lists(st.sampled_from(fam), min_size=1, max_size=3))
        c["pre_generate"] = [[g, dict(o)] for g, o in pre]
        return c

    return case()


def _fresh_body(case, ctx):
    from ..freshproc import run_in_fresh_process

    res = run_in_fresh_process("sophtverif.props.c20", "euler_and_rk3_compiled", [case])
    if res.get("error"):
        raise RuntimeError("fresh-process driver failed: " + res["error"])
    if res["violation"] is not None:
        raise Violation(f"in a fresh process, after generating {case['pre_generate']} first: {res['violation']['message']}")
    ctx.note(nontrivial=True, labels=[case["kernel"], f"pre_generated_{len(case['pre_generate'])}"])


PARTS = [
    Part(name="euler_and_rk3_compiled", strategy=_strategy, body=_body, variants=_variants,
         examples={"quick": 640, "thorough": 16000}, shards={"quick": 8, "thorough": 16}),
    Part(name="rk3_exact", strategy=_exact_strategy, body=_exact_body, variants=_exact_variants,
         examples={"quick": 60, "thorough": 1200}, shards={"quick": 6, "thorough": 12}),
    Part(name="fresh_process_generation_order", strategy=_fresh_strategy, body=_fresh_body, variants=_variants,
         examples={"quick": 32, "thorough": 640}, shards={"quick": 8, "thorough": 16}, min_examples_per_variant=3),
]
