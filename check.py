#!/venv/bin/python
"""CLI of the SophT property checks.

  check.py <ID> [--tier quick|thorough] [--seed N] [--parts a,b] [--jobs N] [--budget S]
  check.py --replay <file>
  check.py --warm            (setup: install deps if needed, pre-compile kernels into .cache)

exit 0: property held on everything explored; exit 1 + "VIOLATION property=<id> replay=<path>":
violation; exit 2: harness error (never a VIOLATION line).
"""

from __future__ import annotations

import argparse
import os
import subprocess
import sys

HERE = os.path.dirname(os.path.abspath(__file__))
os.environ.setdefault("PYTHONHASHSEED", "0")
if os.environ.get("PYTHONHASHSEED") != "0" and not os.environ.get("_SOPHTVERIF_REEXEC"):
    os.environ["PYTHONHASHSEED"] = "0"
sys.path.insert(0, HERE)
DEPS = os.path.join(HERE, ".deps")
if os.path.isdir(DEPS):
    sys.path.insert(0, DEPS)


def ensure_deps() -> None:
    try:
        import hypothesis  # noqa: F401
    except ImportError:
        os.makedirs(DEPS, exist_ok=True)
        subprocess.check_call(
            [sys.executable, "-m", "pip", "install", "--no-index", "--find-links",
             "/opt/veriftools/wheels", "--target", DEPS, "hypothesis"],
            stdout=sys.stderr,
        )
        sys.path.insert(0, DEPS)
        import hypothesis  # noqa: F401
    try:
        import atheris  # noqa: F401
    except ImportError:
        # coverage-guided parts (sophtverif/fuzz.py) are optional: without atheris they report "atheris_not_available"
        try:
            os.makedirs(DEPS, exist_ok=True)
            subprocess.check_call(
                [sys.executable, "-m", "pip", "install", "--no-index", "--find-links",
                 "/opt/veriftools/wheels", "--target", DEPS, "atheris"],
                stdout=sys.stderr, stderr=sys.stderr,
            )
            if DEPS not in sys.path:
                sys.path.insert(0, DEPS)
        except Exception:  # noqa: BLE001
            pass


def main() -> int:
    ap = argparse.ArgumentParser()
    ap.add_argument("prop", nargs="?")
    ap.add_argument("--tier", default=os.environ.get("VERIF_TIER", "quick"), choices=["quick", "thorough"])
    ap.add_argument("--seed", type=int, default=None)
    ap.add_argument("--parts", default=None)
    ap.add_argument("--jobs", type=int, default=None)
    ap.add_argument("--budget", type=float, default=None)
    ap.add_argument("--replay", default=None)
    ap.add_argument("--warm", action="store_true")
    args = ap.parse_args()

    try:
        ensure_deps()
        import warnings

        warnings.filterwarnings("ignore")
        os.environ.setdefault("PYTHONWARNINGS", "ignore")
        from sophtverif import compat

        compat.setup_env()
        if args.warm:
            from sophtverif import warm

            return warm.main()
        from sophtverif import runner

        if args.replay:
            return runner.replay(args.replay)
        if not args.prop:
            ap.error("property id required")
        seed = args.seed if args.seed is not None else int(os.environ.get("VERIF_SEED", "1"))
        modname = f"sophtverif.props.{args.prop.lower()}"
        parts = args.parts.split(",") if args.parts else None
        return runner.run_property(modname, args.tier, seed, jobs=args.jobs, only_parts=parts,
                                   budget_s=args.budget)
    except SystemExit:
        raise
    except BaseException as e:  # noqa: BLE001
        import traceback

        traceback.print_exc()
        print(f"HARNESS-ERROR: {type(e).__name__}: {e}", file=sys.stderr)
        return 2


if __name__ == "__main__":
    sys.exit(main())
