"""C18 - a run resumed from a checkpoint continues as the uninterrupted run would have."""

from __future__ import annotations

import os
import shutil
import tempfile

import numpy as np
from hypothesis import strategies as st

from .. import bodies, gen, simcfg
from ..runner import Part, Violation

PROPERTY_ID = "C18"
LEVEL = "exploration"
RULE = (
    "Part resume_equals_uninterrupted (crash points x configurations): Hypothesis draws a coupled configuration (2-D NS with a "
    "circular cylinder / 3-D NS with a sphere; forcing on; free stream, filter type/order, Poisson solver, zone width in {0,2}, "
    "precision, nu, rho, virtual-boundary coefficients, spring, body speed scale 1..1e-6 i.e. creeping bodies), initial fields, K <= 6 coupled steps and a checkpoint index k in "
    "[0,K] (every k in the thorough tier). Run A is uninterrupted and writes at step k - through EulerianFieldIO and IO, exactly as "
    "the restart example does - the public state named by the property (vorticity, velocity, time, marker position- and velocity-"
    "mismatch fields, body position/velocity as Lagrangian fields). Run B builds FRESH simulator and interaction objects, POISONS "
    "every scratch array (flow buffers, stream function, Poisson work buffers, interpolation work arrays, marker force/flow-velocity "
    "buffers, body force buffers) with 1e30, loads the checkpoint and continues K-k steps. Oracle: A and B agree on vorticity, "
    "velocity, forcing field, marker forces, mismatch fields, body state and time (512 eps S per step). Part restart_helper: a "
    "temporary working directory is populated with generated sopht_/rod_/forcing_grid_ triples (indices drawn, incl. >= 10000, "
    "unrelated files) and a PyElastica save_state directory whose time matches or not; restart_simulation must return the time of "
    "the highest-index flow file with that triple loaded, raise FileNotFoundError for an empty set and ValueError on a time "
    "mismatch. Non-trivial: 0 < k < K with the body moving and the filter or free stream on (A); >= 2 triples with distinct "
    "contents (B). Distinct = digest of case."
    " Bodies may be Cosserat rods (element / edge / nodal / surface +- caps grids); rolling checkpoints overwrite earlier files; helper directories may hold later body/forcing files without a flow file; couplings thrown out of the admissible domain are excluded and counted."
)
ASSUMPTIONS = [
    "rigid-body state is integrated by a 5-line symplectic Euler in the harness (no hidden integrator state; independent of the "
    "upstream PyElastica restart issue referenced by the repo's xfail test)",
    "checkpoint files follow the %04d naming convention of the examples",
]
BUDGET_S = {"quick": 170.0, "thorough": 3000.0}

DX = 0.0625
SHAPES = {2: [(24, 28), (26, 24)], 3: [(20, 22, 21), (22, 20, 21)]}


def _variants(tier):
    # the replicate index only spreads the work over more worker processes (it enters the derived seed)
    return [[d, p, r] for d in (2, 3) for p in ("float32", "float64") for r in range(4)]


ROD_GRIDS = {2: ["element", "edge", "nodal"], 3: ["surface", "surface_caps", "element", "nodal"]}
ROD_ELEMS = 5  # one marker count per grid type: the numba communicator kernels are compiled per (dx, number of markers)


def _strategy(tier, var):
    dim, dtype = var[0], var[1]
    body_kind = "rod" if len(var) > 2 and var[2] == 3 else "rigid"

    @st.composite
    def case(draw):
        K = draw(st.integers(2, 6 if dim == 2 else 4))
        shape = draw(st.sampled_from(SHAPES[dim]))
        cfg = {"sim": "ns2d" if dim == 2 else "ns3d", "dtype": dtype, "threads": simcfg.SIM_THREADS,
               "nu": draw(gen.log_uniform(1e-3, 1e-1)), "time0": draw(st.sampled_from([0.0, 0.75])), "with_forcing": True,
               "with_free_stream": draw(st.sampled_from([True, True, False])), "rho": draw(gen.nice_or_log(0.5, 2.0)),
               "width": draw(st.sampled_from([0, 2])), "shape": list(shape), "x_range": DX * shape[-1],
               "filter": None, "poisson": "greens_function_convolution"}
        if dim == 3:
            cfg["filter"] = draw(st.one_of(st.none(), st.fixed_dictionaries(
                {"type": st.sampled_from(["multiplicative", "convolution"]), "order": st.integers(1, 2)})))
            cfg["poisson"] = draw(st.sampled_from(["greens_function_convolution", "fast_diagonalisation"]))
        k = draw(st.one_of(st.integers(1, K - 1), st.integers(1, K - 1), st.integers(1, K - 1), st.sampled_from([0, K])))
        return {"cfg": cfg, "K": K, "k": k,
                "vorticity": draw(gen.vector_field_spec(3, kinds=["bumps", "noise", "mixed", "poly"], max_mag_exp=2)),
                "velocity": draw(gen.vector_field_spec(3, kinds=["bumps", "noise", "mixed", "poly", "constant"], max_mag_exp=1)),
                "free_stream": draw(st.lists(st.one_of(gen.floats(-1.0, 1.0, 32), gen.floats(-1.0, 1.0, 32), st.just(0.0)), min_size=dim, max_size=dim)),
                "dt_frac": draw(gen.floats(0.1, 0.8, 32)),
                "coeffs": [draw(gen.floats(-2e3, -1.0, 32)), draw(gen.floats(-20.0, 0.0, 32))],
                "radius": draw(gen.floats(0.15, 0.22, 32)), "body_v": draw(st.lists(gen.floats(-0.5, 0.5, 32), min_size=3, max_size=3)),
                "spring": draw(gen.floats(0.0, 50.0, 32)), "mass": draw(gen.floats(0.5, 5.0, 32)),
                "omega": draw(gen.floats(-2.0, 2.0, 32)),
                # slow bodies: per-step marker displacements down to 1e-9 cells (creeping / nearly fixed bodies)
                "slow": draw(st.sampled_from([1.0, 1.0, 1e-2, 1e-4, 1e-6])),
                # rolling checkpoints: this many earlier steps wrote the SAME file names before step k did (a fixed
                # "latest" name, or the %04d index computed from a coarse time bucket as the examples do), through the same
                # long-lived IO objects or through new ones
                "rolling": draw(st.sampled_from([0, 0, 1, 2, 3])), "reuse_io": draw(st.booleans()),
                # body: rigid cylinder / sphere, or a Cosserat rod (generic bent pose, drawn forcing-grid class) whose nodes are
                # integrated by the harness under the flow forces
                "body": body_kind,
                "rod": (draw(bodies.rod_spec(planar=dim == 2, max_elems=ROD_ELEMS)) if body_kind == "rod" else None),
                "rod_grid": draw(st.sampled_from(ROD_GRIDS[dim])) if body_kind == "rod" else None}

    return case()


class Excluded(Exception):
    """The generated coupled system left the domain the property speaks about (explicitly unstable feedback coefficients: the
    body is thrown towards the boundary or the fields overflow) - counted, not a violation and not a pass."""


class Run:
    """One coupled flow-body run built only from public constructors."""

    def __init__(self, case, ctx):
        import sopht.simulator.immersed_body as spi

        cfg = case["cfg"]
        self.case, self.cfg = case, cfg
        self.dim = dim = 2 if cfg["sim"] == "ns2d" else 3
        self.real_t = real_t = gen.np_dtype(cfg["dtype"])
        with ctx.repo_call("constructing the flow simulator"):
            self.sim = simcfg.build_sim(cfg)
        shape = tuple(cfg["shape"])
        centre = np.array([shape[dim - 1 - c] * DX / 2 for c in range(dim)] + [0.0] * (3 - dim))
        self.slow = float(case.get("slow", 1.0))
        kw = dict(eul_grid_forcing_field=self.sim.eul_grid_forcing_field,
                  eul_grid_velocity_field=self.sim.velocity_field, virtual_boundary_stiffness_coeff=case["coeffs"][0],
                  virtual_boundary_damping_coeff=case["coeffs"][1], dx=self.sim.dx, grid_dim=dim, real_t=real_t,
                  start_time=cfg["time0"], num_threads=cfg["threads"])  # the examples hand the simulator's thread count on
        if case.get("body", "rigid") == "rod":
            spec = dict(case["rod"], n_elems=ROD_ELEMS, length=0.35 + 0.1 * (case["rod"]["length"] / 3.0),
                        radius=0.03 + 0.1 * case["rod"]["radius"], taper="uniform",
                        vel_scale=0.1 * case["rod"]["vel_scale"], omega_scale=0.25 * case["rod"]["omega_scale"],
                        curvature=case["rod"]["curvature"])
            self.body = bodies.make_rod(spec)
            mid = self.body.position_collection.mean(axis=1)
            self.body.position_collection[...] += (centre - mid)[:, None]
            self.body.velocity_collection[...] *= self.slow
            self.body.omega_collection[...] *= self.slow
            g = case["rod_grid"]
            cls = {"element": spi.CosseratRodElementCentricForcingGrid, "edge": spi.CosseratRodEdgeForcingGrid,
                   "nodal": spi.CosseratRodNodalForcingGrid, "surface": spi.CosseratRodSurfaceForcingGrid,
                   "surface_caps": spi.CosseratRodSurfaceForcingGrid}[g]
            extra = {}
            if g.startswith("surface"):
                extra = {"surface_grid_density_for_largest_element": 4, "with_cap": g == "surface_caps"}
            with ctx.repo_call(f"constructing the rod flow interaction ({g})"):
                self.inter = spi.CosseratRodFlowInteraction(cosserat_rod=self.body, forcing_grid_cls=cls, **kw, **extra)
        else:
            self.body = bodies.make_rigid("cylinder2d" if dim == 2 else "sphere", {"radius": case["radius"], "length": 0.5, "breadth": 0.5})
            self.body.position_collection[:, 0] = centre
            v = np.array(case["body_v"], dtype=np.float64)
            if dim == 2:
                v[2] = 0.0
            self.body.velocity_collection[:, 0] = v * self.slow
            self.body.omega_collection[:, 0] = [0.0, 0.0, case["omega"] * self.slow]
            kw["rigid_body"] = self.body
            with ctx.repo_call("constructing the flow-body interaction"):
                if dim == 2:
                    self.inter = spi.RigidBodyFlowInteraction(forcing_grid_cls=spi.CircularCylinderForcingGrid, num_forcing_points=33, **kw)
                else:
                    self.inter = spi.RigidBodyFlowInteraction(forcing_grid_cls=spi.SphereForcingGrid, num_forcing_points_along_equator=8, **kw)
        self.x0 = self.body.position_collection.copy()
        self.fs = np.array(case["free_stream"], dtype=np.float64)
        self.dt = None

    def set_initial_fields(self):
        case, sim, dim = self.case, self.sim, self.dim
        shape = tuple(self.cfg["shape"])
        w = gen.build_vector_field(case["vorticity"], shape, self.real_t, margin=3)
        sim.vorticity_field[...] = w[0] if dim == 2 else w
        sim.velocity_field[...] = gen.build_vector_field(case["velocity"][:dim], shape, self.real_t)

    def choose_dt(self):
        umax = float(np.max(np.sum(np.abs(self.sim.velocity_field.astype(np.float64)), axis=0))) + float(np.max(np.abs(self.fs))) + 0.5
        self.dt = simcfg.stable_dt(self.cfg, float(self.sim.dx), umax, self.case["dt_frac"])
        return self.dt

    def step(self, ctx):
        dt, b, it, dim = self.dt, self.body, self.inter, self.dim
        with ctx.repo_call("coupled step", allow=(Excluded,)):
            it.compute_flow_forces_and_torques()
            acc = it.body_flow_forces / self.case["mass"] + self.case["spring"] * (self.x0 - b.position_collection)
            if dim == 2:
                acc[2] = 0.0
            acc *= self.slow
            b.velocity_collection[...] += dt * acc
            b.position_collection[...] += dt * b.velocity_collection
            # admissible domain of the immersed-boundary kernels: every marker at least two cells inside (kept at three here
            # because the markers follow the body); finite fields of moderate size (the kernels are compiled with -Ofast)
            it.forcing_grid.compute_lag_grid_position_field()
            pos = it.forcing_grid.position_field
            ext = [self.cfg["shape"][dim - 1 - c] * float(self.sim.dx) for c in range(dim)]
            lim = 3.0 * float(self.sim.dx)
            if (not np.all(np.isfinite(pos)) or any(pos[c].min() < lim or pos[c].max() > ext[c] - lim for c in range(dim))
                    or not float(np.max(np.abs(self.sim.vorticity_field))) < 1e12):
                raise Excluded()
            it.time_step(dt=dt)
            it()
            self.sim.time_step(dt=dt, free_stream_velocity=self.fs)

    # ---- checkpoint through the IO layer -----------------------------------------------------
    def make_io(self):
        import sopht.utils as spu

        flow_io = spu.EulerianFieldIO(position_field=self.sim.position_field,
                                      eulerian_fields_dict={"vorticity": self.sim.vorticity_field, "velocity": self.sim.velocity_field})
        body_io = spu.IO(dim=self.dim, real_dtype=self.real_t)
        body_io.add_as_lagrangian_fields_for_io(
            lagrangian_grid=self.inter.forcing_grid.position_field, lagrangian_grid_name="forcing_grid",
            position_mismatch=self.inter.lag_grid_position_mismatch_field, velocity_mismatch=self.inter.lag_grid_velocity_mismatch_field)
        self._body_pos = self.body.position_collection[: self.dim].copy()
        self._body_vel = self.body.velocity_collection[: self.dim].copy()
        body_io.add_as_lagrangian_fields_for_io(lagrangian_grid=self._body_pos, lagrangian_grid_name="rigid_body", velocity=self._body_vel)
        return flow_io, body_io

    def save(self, d, ctx, reuse=False):
        if reuse and getattr(self, "_ios", None) is not None:
            flow_io, body_io = self._ios
            self._body_pos[...] = self.body.position_collection[: self.dim]
            self._body_vel[...] = self.body.velocity_collection[: self.dim]
        else:
            flow_io, body_io = self.make_io()
            if reuse:
                self._ios = (flow_io, body_io)
        with ctx.repo_call("checkpoint save"):
            flow_io.save(h5_file_name=os.path.join(d, "sopht_0001.h5"), time=self.sim.time)
            body_io.save(h5_file_name=os.path.join(d, "forcing_grid_0001.h5"), time=self.inter.time)

    def load(self, d, ctx):
        flow_io, body_io = self.make_io()
        with ctx.repo_call("checkpoint load"):
            self.sim.time = flow_io.load(h5_file_name=os.path.join(d, "sopht_0001.h5"))
            self.inter.time = body_io.load(h5_file_name=os.path.join(d, "forcing_grid_0001.h5"))
        self.body.position_collection[: self.dim] = self._body_pos
        self.body.velocity_collection[: self.dim] = self._body_vel

    def poison(self):
        big = 1e30
        sim, it = self.sim, self.inter
        for name in ("buffer_scalar_field", "buffer_vector_field", "stream_func_field"):
            a = getattr(sim, name, None)
            if isinstance(a, np.ndarray):
                a[...] = big
        ps = sim._unbounded_poisson_solver
        for name in ("domain_doubled_buffer", "convolution_buffer", "domain_doubled_fourier_buffer", "spectral_field_buffer"):
            a = getattr(ps, name, None)
            if isinstance(a, np.ndarray):
                a[...] = big
        for name in ("lag_grid_flow_velocity_field", "lag_grid_forcing_field", "interp_weights", "local_eul_grid_support_of_lag_grid"):
            getattr(it, name)[...] = big
        it.nearest_eul_grid_index_to_lag_grid[...] = 3
        it.body_flow_forces[...] = big
        it.body_flow_torques[...] = big
        # state that the checkpoint must restore is poisoned as well
        sim.vorticity_field[...] = big
        sim.velocity_field[...] = big
        it.lag_grid_position_mismatch_field[...] = big
        it.lag_grid_velocity_mismatch_field[...] = big
        sim.time = -1.0
        it.time = -1.0

    def observables(self):
        sim, it = self.sim, self.inter
        return {"vorticity": sim.vorticity_field, "velocity": sim.velocity_field, "eul_forcing": sim.eul_grid_forcing_field,
                "marker_force": it.lag_grid_forcing_field, "position_mismatch": it.lag_grid_position_mismatch_field,
                "velocity_mismatch": it.lag_grid_velocity_mismatch_field, "body_position": self.body.position_collection,
                "body_velocity": self.body.velocity_collection}


def _body(case, ctx):
    K = case["K"]
    ks = list(range(K + 1)) if ctx.tier == "thorough" else [case["k"]]
    tmp = tempfile.mkdtemp(prefix="sophtverif_c18_")
    try:
        _body_inner(case, ctx, K, ks, tmp)
    except Excluded:
        ctx.note(labels=["excluded_unstable_coupling_left_the_domain"])
    finally:
        shutil.rmtree(tmp, ignore_errors=True)


def _body_inner(case, ctx, K, ks, tmp):
    if True:
        A = Run(case, ctx)
        A.set_initial_fields()
        dt = A.choose_dt()
        rolling = int(case.get("rolling", 0)) if len(ks) == 1 else 0
        reuse = bool(case.get("reuse_io", False))
        overwritten = 0
        for i in range(K + 1):
            if i in ks:
                os.makedirs(os.path.join(tmp, str(i)), exist_ok=True)
                A.save(os.path.join(tmp, str(i)), ctx, reuse=reuse and rolling > 0)
            elif rolling and ks[0] - rolling <= i < ks[0]:
                # an earlier checkpoint under the same file names, overwritten at step k
                os.makedirs(os.path.join(tmp, str(ks[0])), exist_ok=True)
                A.save(os.path.join(tmp, str(ks[0])), ctx, reuse=reuse)
                overwritten += 1
            if i < K:
                A.step(ctx)
        if overwritten:
            ctx.note(labels=["checkpoint_overwrote_earlier_file", "io_objects_reused" if reuse else "io_objects_fresh"])
        for k in ks:
            _resume_and_compare(case, ctx, A, dt, k, os.path.join(tmp, str(k)))


def _resume_and_compare(case, ctx, A, dt, k, ckpt_dir):
    K = case["K"]
    if True:
        B = Run(case, ctx)
        B.dt = dt
        B.poison()
        B.load(ckpt_dir, ctx)
        for i in range(k, K):
            B.step(ctx)
        real_t = A.real_t
        eps = float(np.finfo(real_t).eps)
        if B.sim.time != A.sim.time or B.inter.time != A.inter.time:
            raise Violation(f"resumed run times (flow {B.sim.time!r}, forcing {B.inter.time!r}) != uninterrupted ({A.sim.time!r}, {A.inter.time!r})")
        oa, ob = A.observables(), B.observables()
        for name in oa:
            if k == K and name == "marker_force":
                continue  # not part of the checkpointed public state: recomputed by the next evaluation
            a, b = oa[name].astype(np.float64), ob[name].astype(np.float64)
            scale = float(np.max(np.abs(a), initial=0.0))
            if name in ("marker_force", "eul_forcing"):
                scale = max(scale, abs(case["coeffs"][0]) * float(np.max(np.abs(oa["position_mismatch"]), initial=0.0))
                            + abs(case["coeffs"][1]) * float(np.max(np.abs(oa["velocity_mismatch"]), initial=0.0)))
            tol = 512 * eps * max(K - k, 1) * scale + 64 * float(np.finfo(real_t).tiny)
            err = float(np.max(np.abs(a - b), initial=0.0))
            if not np.all(np.isfinite(b)) or err > tol:
                raise Violation(f"resumed run differs from the uninterrupted one in '{name}' after checkpoint at step {k} of {K}: "
                                f"max|diff| = {err:.3e} > {tol:.3e} (cfg {case['cfg']})")
        moving = float(np.max(np.abs(A.body.velocity_collection))) > 1e-6 * float(case.get("slow", 1.0))
        feature = bool(case["cfg"]["filter"]) or case["cfg"]["with_free_stream"]
        ctx.note(nontrivial=0 < k < K and moving and feature,
                 labels=simcfg.config_labels(case["cfg"]) + [("rod_" + str(case.get("rod_grid"))) if case.get("body") == "rod" else "rigid_body", f"k{k}_of_{K}", f"body_speed_scale_{case.get('slow', 1.0):g}", "interior_checkpoint" if 0 < k < K else "edge_checkpoint"])


# ------------------------------------------------------------------------------------------------
# restart helper
# ------------------------------------------------------------------------------------------------


def _helper_strategy(tier):
    @st.composite
    def case(draw):
        idx = draw(st.lists(st.one_of(st.integers(0, 60), st.integers(9990, 10050), st.integers(0, 9999)), min_size=0, max_size=5, unique=True))
        return {"indices": idx, "times": [draw(gen.floats(0.0, 100.0, 64)) for _ in idx],
                "elastica_time_matches": draw(st.booleans()), "elastica_time": draw(gen.floats(0.0, 100.0, 64)),
                "unrelated": draw(st.lists(st.sampled_from(["notes.txt", "rod_0003.h5", "forcing_grid_0007.h5", "sopht_0001_eulerian.xmf",
                                                            "snap_00012.png", "sopht.h5.bak"]), max_size=3, unique=True)),
                "dim": draw(st.sampled_from([2, 3])), "dtype": draw(gen.precisions), "n_elems": draw(st.integers(3, 8)),
                # valid body / forcing-grid files with an index ABOVE the largest flow checkpoint (left over from a longer earlier run,
                # or the flow files of those steps were deleted to rewind): the flow file index decides which triple is loaded
                "orphans": draw(st.lists(st.tuples(st.sampled_from(["rod", "forcing_grid"]), st.integers(1, 30)).map(list), max_size=2))}

    return case()


def _mk_world(case):
    import elastica as ea
    import sopht.utils as spu

    dim = case["dim"]
    real_t = gen.np_dtype(case["dtype"])
    grid = (4, 5) if dim == 2 else (3, 4, 5)
    axes = [((np.arange(n) + 0.5) * 0.1).astype(real_t) for n in grid]
    pos = np.flipud(np.array(np.meshgrid(*axes, indexing="ij")))
    vort = np.zeros(grid if dim == 2 else (3, *grid), dtype=real_t)
    vel = np.zeros((dim, *grid), dtype=real_t)
    io = spu.EulerianFieldIO(position_field=pos, eulerian_fields_dict={"vorticity": vort, "velocity": vel})

    class Sim(ea.BaseSystemCollection, ea.Constraints, ea.Forcing, ea.Damping):
        pass

    sim = Sim()
    rod = ea.CosseratRod.straight_rod(case["n_elems"], np.zeros(3), np.array([0.0, 0.0, 1.0]), np.array([1.0, 0.0, 0.0]), 1.0, 0.05, 1000.0,
                                      youngs_modulus=1e6, shear_modulus=1e6 / 1.5)
    sim.append(rod)
    sim.finalize()
    rod_io = spu.CosseratRodIO(cosserat_rod=rod, dim=dim, real_dtype=real_t)
    forcing = np.zeros((dim, case["n_elems"]), dtype=real_t)
    gridpos = np.zeros((dim, case["n_elems"]))
    forcing_io = spu.IO(dim=dim, real_dtype=real_t)
    forcing_io.add_as_lagrangian_fields_for_io(lagrangian_grid=gridpos, lagrangian_grid_name="cosseratrod", forcing=forcing)
    return {"io": io, "rod_io": rod_io, "forcing_io": forcing_io, "sim": sim, "rod": rod, "vort": vort, "vel": vel, "forcing": forcing,
            "gridpos": gridpos}


def _helper_body(case, ctx):
    import elastica as ea
    import sopht.utils as spu

    tmp = tempfile.mkdtemp(prefix="sophtverif_c18h_")
    cwd = os.getcwd()
    try:
        os.chdir(tmp)
        W = _mk_world(case)
        for i, t in zip(case["indices"], case["times"]):
            W["vort"][...] = i + 0.5
            W["vel"][...] = -i - 0.25
            W["forcing"][...] = 2 * i + 1
            W["gridpos"][...] = i
            W["rod"].radius[...] = 0.01 * (i % 97 + 1)
            W["io"].save(h5_file_name=f"sopht_{i:04d}.h5", time=t)
            W["rod_io"].save(h5_file_name=f"rod_{i:04d}.h5", time=t)
            W["forcing_io"].save(h5_file_name=f"forcing_grid_{i:04d}.h5", time=t)
        for fam, off in (case.get("orphans", []) if case["indices"] else []):
            j = max(case["indices"]) + int(off)
            W["forcing"][...] = 2 * j + 1
            W["gridpos"][...] = j
            W["rod"].radius[...] = 0.01 * (j % 97 + 1)
            (W["rod_io"] if fam == "rod" else W["forcing_io"]).save(h5_file_name=f"{fam}_{j:04d}.h5", time=1e3 + j)
        for u in case["unrelated"]:
            if not os.path.exists(u):
                with open(u, "w") as f:
                    f.write("unrelated")
        latest = max(case["indices"]) if case["indices"] else None
        t_latest = case["times"][case["indices"].index(latest)] if case["indices"] else None
        t_el = t_latest if (case["elastica_time_matches"] and latest is not None) else case["elastica_time"]
        ea.save_state(W["sim"], "restart_data", t_el if t_el is not None else 0.0)
        # fresh objects to load into
        W2 = _mk_world(case)
        W2["vort"][...] = 777
        import contextlib
        import io as _io

        try:
            with ctx.repo_call("restart_simulation", allow=(FileNotFoundError, ValueError)), contextlib.redirect_stdout(_io.StringIO()):
                t = spu.restart_simulation(restart_simulator=W2["sim"], io=W2["io"], rod_io=W2["rod_io"], forcing_io=W2["forcing_io"],
                                           restart_dir="restart_data")
            outcome = ("ok", t)
        except FileNotFoundError:
            outcome = ("FileNotFoundError", None)
        except ValueError:
            outcome = ("ValueError", None)
        if latest is None:
            if outcome[0] != "FileNotFoundError":
                raise Violation(f"restart helper with no checkpoint present: expected FileNotFoundError, got {outcome}")
            ctx.note(nontrivial=False, labels=["no_checkpoint"])
            return
        mism = (t_el != t_latest)
        if mism:
            if outcome[0] != "ValueError":
                raise Violation(f"flow time {t_latest!r} and body time {t_el!r} disagree but the restart helper returned {outcome}")
            ctx.note(nontrivial=len(case["indices"]) >= 2, labels=["time_mismatch_rejected"])
            return
        if outcome[0] != "ok":
            raise Violation(f"restart helper raised {outcome[0]} although checkpoint {latest} with matching times exists (indices {case['indices']})")
        if np.float64(outcome[1]).tobytes() != np.float64(t_latest).tobytes():
            raise Violation(f"restart helper returned time {outcome[1]!r}, the highest-index checkpoint {latest} holds {t_latest!r}")
        if not (np.all(W2["vort"] == latest + 0.5) and np.all(W2["vel"] == -latest - 0.25) and np.all(W2["forcing"] == 2 * latest + 1)
                and np.all(W2["gridpos"] == latest)):
            raise Violation(f"restart helper did not load the triple with the largest index {latest} (indices present {sorted(case['indices'])})")
        ctx.note(nontrivial=len(case["indices"]) >= 2, labels=["loaded_latest", "index_ge_10000" if latest >= 10000 else "index_lt_10000"]
                 + (["later_body_or_forcing_files_present"] if case.get("orphans") else []))
    finally:
        os.chdir(cwd)
        shutil.rmtree(tmp, ignore_errors=True)


PARTS = [
    Part(name="resume_equals_uninterrupted", strategy=_strategy, body=_body, variants=_variants,
         examples={"quick": 96, "thorough": 2400}, shards={"quick": 12, "thorough": 16}, min_examples_per_variant=4),
    Part(name="restart_helper", strategy=_helper_strategy, body=_helper_body,
         examples={"quick": 120, "thorough": 2400}, shards={"quick": 4, "thorough": 8}),
]
