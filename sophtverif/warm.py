"""Setup: make sure dependencies import and pre-compile the kernels the checks use into .cache.

The caches are keyed by generated source, so they can never mask a change in /repo; they only save
the ~1.4 s/kernel g++ time on the first run after a fresh restore.  Nothing here is required.
"""

from __future__ import annotations

import itertools
import sys
import time


def _warm_one(args):
    kind, dtype, threads = args
    import warnings

    warnings.filterwarnings("ignore")
    from . import capture

    capture.install()
    import numpy as np

    real_t = np.float32 if dtype == "float32" else np.float64
    t0 = time.time()
    try:
        import sopht.simulator as sps

        if kind == "ns2d":
            sps.UnboundedNavierStokesFlowSimulator2D(
                grid_size=(8, 10), x_range=1.0, kinematic_viscosity=1e-2, real_t=real_t,
                num_threads=threads, with_forcing=True, with_free_stream_flow=True)
        elif kind == "ns3d":
            for solver in ("greens_function_convolution", "fast_diagonalisation"):
                sps.UnboundedNavierStokesFlowSimulator3D(
                    grid_size=(6, 7, 8), x_range=1.0, kinematic_viscosity=1e-2, real_t=real_t,
                    num_threads=threads, with_forcing=True, with_free_stream_flow=True,
                    filter_vorticity=True, poisson_solver_type=solver)
        elif kind == "passive":
            sps.PassiveTransportFlowSimulator(kinematic_viscosity=1e-2, grid_dim=2, grid_size=(8, 10),
                                              x_range=1.0, real_t=real_t, num_threads=threads)
            for ft in ("scalar", "vector"):
                sps.PassiveTransportFlowSimulator(kinematic_viscosity=1e-2, grid_dim=3,
                                                  grid_size=(6, 7, 8), x_range=1.0, real_t=real_t,
                                                  num_threads=threads, field_type=ft)
        elif kind == "allgens":
            from . import kernels

            kernels.build_all(real_t, threads)
    except Exception as e:  # noqa: BLE001 - warming is best effort
        return (args, False, f"{type(e).__name__}: {e}", time.time() - t0)
    return (args, True, "", time.time() - t0)


def main() -> int:
    import multiprocessing as mp
    from concurrent.futures import ProcessPoolExecutor

    import hypothesis  # noqa: F401  (check.py installed it if it was missing)

    jobs = list(itertools.product(["ns2d", "ns3d", "passive", "allgens"], ["float32", "float64"], [1, 2]))
    jobs += [("allgens", d, False) for d in ("float32", "float64")]
    t0 = time.time()
    with ProcessPoolExecutor(max_workers=16, mp_context=mp.get_context("spawn")) as ex:
        for args, ok, msg, dt in ex.map(_warm_one, jobs):
            print(f"warm {args}: {'ok' if ok else 'FAILED ' + msg} ({dt:.1f}s)", file=sys.stderr)
    print(f"warm done in {time.time() - t0:.1f}s", file=sys.stderr)
    return 0
