"""Line-coverage probe of /repo/sopht under the checks (a tool for the author, not part of any verdict).

SOPHTVERIF_COV=<dir> makes every worker record which lines of sopht/ it executed (sys.monitoring, Python 3.12; interpreted code
only: numba- and pystencils-compiled kernels are not visible) and dump them to <dir>/<prop>-<part>-<shard>-<pid>.json.
tools/cov_report.py merges the dumps and lists the functions no check ever entered.
"""
import json
import os
import sys

_HIT = set()
_ON = False
_ROOT = None


def start():
    global _ON, _ROOT
    d = os.environ.get("SOPHTVERIF_COV")
    if not d or _ON or not hasattr(sys, "monitoring"):
        return
    import sopht

    _ROOT = os.path.dirname(os.path.abspath(sopht.__file__)) + os.sep
    mon = sys.monitoring
    tool = mon.COVERAGE_ID
    try:
        mon.use_tool_id(tool, "sophtverif-cov")
    except ValueError:
        return

    def on_line(code, line):
        fn = code.co_filename
        if fn.startswith(_ROOT):
            _HIT.add((fn[len(_ROOT):], line))
        return mon.DISABLE

    mon.register_callback(tool, mon.events.LINE, on_line)
    mon.set_events(tool, mon.events.LINE)
    _ON = True


def dump(tag):
    d = os.environ.get("SOPHTVERIF_COV")
    if not d or not _ON:
        return
    os.makedirs(d, exist_ok=True)
    with open(os.path.join(d, f"{tag}-{os.getpid()}.json"), "w") as f:
        json.dump(sorted(_HIT), f)
