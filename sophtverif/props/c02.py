"""C02 - simulations converge to analytic Navier-Stokes / advection-diffusion solutions."""

from __future__ import annotations

import json
import os

import numpy as np
from hypothesis import strategies as st

from .. import gen
from ..runner import VERIF_ROOT, Part, Violation

PROPERTY_ID = "C02"
LEVEL = "exploration"
RULE = (
    "Stratified over {2-D Navier-Stokes Lamb-Oseen vortex in a free stream, 2-D passive Gaussian blob, 3-D passive Gaussian blob} x "
    "precision. Hypothesis draws the physical parameters (vortex/blob centre within +-2 core radii of the domain centre, core radius "
    "2 (2-D) / 1.5 (3-D) coarse cells +-20%, peak strength, viscosity via the start age, free-stream direction and speed, displacement "
    "of 2-3.5 coarse cells, aspect ratio of the grid) and a resolution family of >= 3 members from {32,48,64,96,128} (2-D) / "
    "{16,24,32,48} (3-D), each member optionally enlarged by 1..6 cells (odd and FFT-unfriendly sizes; bound of the nominal size). Every member is integrated with the simulator's own compute_stable_timestep (last step shortened so that all "
    "members reach the same final time exactly) and compared with the closed-form solution sampled on position_field: relative discrete "
    "L2 error e(n). Oracles: observed order between consecutive members log(e_a/e_b)/log(n_b/n_a) >= 1 - delta, and e(n) <= B(n), with "
    "order and monotone decrease are asserted only where the analytic solution's amplitude on the domain boundary is below the error "
    "reached at the finest member (otherwise domain truncation, which no refinement removes, dominates; counted); "
    "delta and B(n) CALIBRATED on the unchanged tree (calibration/c02.json, produced by tools/calibrate_c02.py from >= 200 generated "
    "families: B = 3 x the largest error seen per resolution, delta = margin below the smallest order seen). Non-trivial: family with "
    ">= 3 resolutions, structure displaced by >= 2 coarse cells, peak reduced by diffusion by >= 5%. Distinct = digest of case."
)
ASSUMPTIONS = [
    "a degradation that keeps first-order convergence and stays under 3x the calibrated error is invisible here (it is visible to C01/C05)",
    "float32 families are not refined below a relative error of 1e3*eps",
]
BUDGET_S = {"quick": 170.0, "thorough": 3000.0}

RES = {2: [32, 48, 64, 96, 128], 3: [16, 24, 32, 48]}
CAL_FILE = os.path.join(VERIF_ROOT, "calibration", "c02.json")


def load_calibration():
    if not os.path.exists(CAL_FILE):
        return None
    with open(CAL_FILE) as f:
        return json.load(f)


def _variants(tier):
    reps = 2 if tier == "quick" else 4
    return [[k, p, r] for k in ("ns2d", "passive2d", "passive3d") for p in ("float32", "float64") for r in range(reps)]


def _strategy(tier, var):
    kind, dtype = var[0], var[1]
    dim = 3 if kind.endswith("3d") else 2

    @st.composite
    def case(draw):
        res = RES[dim]
        k = draw(st.integers(3, len(res)))
        start = draw(st.integers(0, len(res) - k))
        fam = res[start:start + k] if draw(st.booleans()) else sorted(draw(st.lists(st.sampled_from(res), min_size=3, max_size=len(res), unique=True)))
        if tier == "quick" and dim == 2 and 128 in fam and len(fam) > 3:
            fam = [n for n in fam if n != 128] if draw(st.booleans()) else fam
        # off-palette resolutions: each member may be a few cells larger than its nominal size (odd extents, sizes whose
        # doubled length is not a product of small primes, ...); bounds are looked up at the nominal (smaller) size
        jit = draw(st.lists(st.sampled_from([0, 0, 1, 2, 3, 5, 6]), min_size=len(fam), max_size=len(fam)))
        fam = [n + j for n, j in zip(fam, jit)]
        coarse = res[0]
        # direction of the uniform stream: any angle, or (a quarter of the cases) along an axis / a diagonal of the grid
        ang = draw(st.one_of(gen.floats(0.0, 6.2831, 32), gen.floats(0.0, 6.2831, 32), gen.floats(0.0, 6.2831, 32),
                             st.sampled_from([k * 0.7853981633974483 for k in range(8)])))
        ang2 = draw(gen.floats(-1.2, 1.2, 32))
        return {
            "kind": kind, "dtype": dtype, "family": fam,
            "sigma_cells": draw(gen.floats(2.6, 3.0, 32)) if dim == 2 else draw(gen.floats(1.5, 1.9, 32)),
            "centre": draw(st.lists(gen.floats(-1.0, 1.0, 32), min_size=3, max_size=3)),
            # the equations are linear in the passive field and the error measure is relative: weak and strong structures are held
            # to the same bounds (Lamb-Oseen: the strength also sets the swirl velocity, kept O(1))
            "peak": draw(st.one_of(gen.floats(0.5, 4.0, 32), gen.floats(0.5, 4.0, 32), gen.log_uniform(1e-7, 1.0))) if kind == "ns2d"
            else draw(st.one_of(gen.floats(0.5, 4.0, 32), gen.log_uniform(1e-7, 1e3))),
            "age_ratio": draw(gen.floats(0.15, 0.4, 32)),   # T / t0 : how much the structure diffuses during the run
            "speed_dir": [ang, ang2],
            "disp_cells": draw(gen.floats(2.0, 3.5, 32)),
            "aspect": draw(st.sampled_from([1.0, 1.0, 0.75, 1.25])),
            "coarse": coarse,
        }

    return case()


def _setup(case, n):
    """Returns dict with simulator, exact-solution callables and run parameters for resolution n."""
    import sopht.simulator as sps

    kind, dim = case["kind"], (3 if case["kind"].endswith("3d") else 2)
    real_t = gen.np_dtype(case["dtype"])
    coarse = case["coarse"]
    x_range = 1.0
    hc = x_range / coarse
    sigma = case["sigma_cells"] * hc
    asp = case["aspect"]
    # extents (.., ny, nx): nx = n; others scaled by the aspect ratio (kept even)
    other = max(int(round(n * asp / 2)) * 2, 8)
    shape = (other, n) if dim == 2 else (n, other, n)
    ranges = [x_range * s / n for s in shape][::-1]  # x, y(, z) extents
    cen = np.array([ranges[c] / 2 + case["centre"][c] * 0.3 * sigma for c in range(dim)])
    a1, a2 = case["speed_dir"]
    if dim == 2:
        dirv = np.array([np.cos(a1), np.sin(a1)])
    else:
        dirv = np.array([np.cos(a1) * np.cos(a2), np.sin(a1) * np.cos(a2), np.sin(a2)])
    disp = case["disp_cells"] * hc
    speed = 1.0
    U = speed * dirv
    T = disp / speed
    t0 = T / case["age_ratio"]
    nu = sigma**2 / (2 * t0)
    kw = dict(x_range=x_range, kinematic_viscosity=nu, real_t=real_t, num_threads=2, time=t0, cfl=0.25)
    if kind == "ns2d":
        sim = sps.UnboundedNavierStokesFlowSimulator2D(grid_size=shape, with_free_stream_flow=True, penalty_zone_width=2, **kw)
    else:
        sim = sps.PassiveTransportFlowSimulator(grid_dim=dim, grid_size=shape, **kw)
    pos = sim.position_field.astype(np.float64)
    amp = case["peak"]

    def exact(t):
        c = cen + U * (t - t0)
        r2 = sum((pos[a] - c[a]) ** 2 for a in range(dim))
        return amp * (t0 / t) ** (dim / 2) * np.exp(-r2 / (4 * nu * t))

    return {"sim": sim, "exact": exact, "U": U, "T": T, "t0": t0, "nu": nu, "cen": cen, "sigma": sigma, "dim": dim, "pos": pos, "amp": amp}


def measure(case, ctx=None):
    """relative L2 errors per resolution of the family."""
    errs = {}
    info = {}
    for n in case["family"]:
        S = _setup(case, n)
        sim, dim, t0, T, U, nu = S["sim"], S["dim"], S["t0"], S["T"], S["U"], S["nu"]
        real_t = sim.real_t
        field = sim.vorticity_field if case["kind"] == "ns2d" else sim.primary_field
        field[...] = S["exact"](t0).astype(real_t)
        if case["kind"] == "ns2d":
            # analytic Lamb-Oseen velocity (circulation Gamma = peak * 4 pi nu t0) plus free stream
            gamma = S["amp"] * 4 * np.pi * nu * t0
            dxp, dyp = S["pos"][0] - S["cen"][0], S["pos"][1] - S["cen"][1]
            r2 = dxp**2 + dyp**2 + 1e-300
            ut = gamma / (2 * np.pi * r2) * (1 - np.exp(-r2 / (4 * nu * t0)))
            sim.velocity_field[0] = (-ut * dyp + U[0]).astype(real_t)
            sim.velocity_field[1] = (ut * dxp + U[1]).astype(real_t)
        else:
            for c in range(dim):
                sim.velocity_field[c] = real_t(U[c])
        t_end = t0 + T
        steps = 0
        while sim.time < t_end - 1e-12 * t_end:
            dt = float(sim.compute_stable_timestep())
            dt = min(dt, t_end - sim.time)
            if case["kind"] == "ns2d":
                sim.time_step(dt=dt, free_stream_velocity=U[:2].copy())
            else:
                sim.time_step(dt=dt)
            steps += 1
            if steps > 20000:
                raise Violation("time integration does not terminate (stable time step too small)")
        ex = S["exact"](sim.time)
        num = float(np.sqrt(np.sum((field.astype(np.float64) - ex) ** 2)))
        den = float(np.sqrt(np.sum(ex**2)))
        errs[n] = num / den if np.isfinite(num) else float("inf")
        info[n] = steps
        # amplitude of the analytic (unbounded-domain) solution on the outermost ring of the grid relative to its peak: the part of
        # the error that is due to truncating the domain and does not converge under refinement
        ring = np.ones(ex.shape, dtype=bool)
        ring[(slice(1, -1),) * ex.ndim] = False
        info["trunc"] = max(info.get("trunc", 0.0), float(np.max(np.abs(ex[ring]))) / (float(np.max(np.abs(ex))) + 1e-300))
    return errs, info


def _body(case, ctx):
    cal = load_calibration()
    if cal is None:
        raise RuntimeError("calibration/c02.json missing: run tools/calibrate_c02.py")
    key = f"{case['kind']}_{case['dtype']}"
    with ctx.repo_call("running the resolution family"):
        errs, info = measure(case, ctx)
    fam = case["family"]
    eps = float(np.finfo(gen.np_dtype(case["dtype"])).eps)
    floor = 1e3 * eps
    B0 = cal["bounds"][key]
    # calibrated at the nominal sizes; a slightly finer grid is held to the bound of the nominal size just below it
    B = {str(n): B0[str(max(m for m in (int(q) for q in B0) if m <= n))] for n in fam}
    delta = cal["delta"][key]
    for n in fam:
        if not np.isfinite(errs[n]) or errs[n] > B[str(n)]:
            raise Violation(f"{key}: relative L2 error {errs[n]:.4e} at n={n} exceeds the calibrated bound {B[str(n)]:.4e} "
                            f"(family {fam}, errors { {k: float(f'{v:.3e}') for k, v in errs.items()} })")
    # observed order over the whole family (coarsest -> finest, at least a factor 2 in resolution); consecutive
    # pairs are reported in evidence only: in the pre-asymptotic range they scatter between 0.5 and 2
    a, b = fam[0], fam[-1]
    # "approaches the analytic solution under refinement" presupposes that the structure stays inside the domain: where the analytic
    # solution is not small on the boundary compared with the error reached, the remaining error is domain truncation, which no
    # refinement removes - the order and monotonicity assertions are then not made (counted); the calibrated bounds still are
    truncation_dominates = info.get("trunc", 0.0) >= 1.0 * errs[b]
    ratio = info.get("trunc", 0.0) / max(errs[b], 1e-300)
    ctx.note(labels=["boundary_amplitude_over_final_error_" + ("lt0.2" if ratio < 0.2 else "lt1" if ratio < 1 else "ge1")])
    if truncation_dominates:
        ctx.note(labels=["order_not_asserted_domain_truncation_dominates"])
    if not truncation_dominates and b >= 2 * a and errs[a] >= floor and errs[b] >= floor:
        order = np.log(errs[a] / errs[b]) / np.log(b / a)
        ctx.extra[f"min_order_{key}"] = min(ctx.extra.get(f"min_order_{key}", 99.0), float(order))
        if order < 1.0 - delta:
            raise Violation(f"{key}: observed order {order:.3f} between n={a} (e={errs[a]:.3e}) and n={b} (e={errs[b]:.3e}) is below 1 - delta = {1 - delta:.3f} "
                            f"(family {fam})")
    for x, y in zip(fam[:-1], fam[1:]):
        if truncation_dominates:
            break
        # members that differ by less than 30% in resolution (off-palette sizes) are in the pre-asymptotic scatter of each other:
        # "decreases under refinement" is demanded strictly only across a real refinement step
        if errs[y] > errs[x] * (1.02 if y >= 1.3 * x else 1.12):
            raise Violation(f"{key}: error grows under refinement: e({x}) = {errs[x]:.3e} < e({y}) = {errs[y]:.3e} (family {fam})")
    ctx.note(nontrivial=len(fam) >= 3 and case["disp_cells"] >= 2.0 and (1 - (1 / (1 + case["age_ratio"])) ** (1 if case["kind"] != "passive3d" else 1.5)) >= 0.05,
             labels=[key, "weak_structure_peak_below_1e-3" if case["peak"] < 1e-3 else "peak_order_one", f"family_{len(fam)}", f"finest_{fam[-1] // 16 * 16}plus", f"aspect_{case['aspect']}"]
             + (["off_palette_resolution"] if any(n not in RES[2] + RES[3] for n in fam) else []))


PARTS = [
    Part(name="convergence_families", strategy=_strategy, body=_body, variants=_variants,
         examples={"quick": 48, "thorough": 720}, shards={"quick": 12, "thorough": 16}, min_examples_per_variant=2),
]
