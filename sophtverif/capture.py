"""Observation without hooks (DESIGN 1.3): spies on pystencils.kernel / pystencils.create_kernel.

* every ``@ps.kernel`` stencil function is recorded by name with its list of sympy Assignments;
* ``ps.create_kernel`` is memoised (same assignments + field specs + config => same compiled
  kernel) and returns a proxy whose compiled callable reports each invocation to the monitors in
  ``MONITORS`` (IR record + the ndarrays bound to each field).
"""

from __future__ import annotations

import threading
from dataclasses import dataclass, field
from typing import Any, Callable

from . import compat

_LOCK = threading.Lock()
_INSTALLED = False

# name of stencil function -> list of KernelRecord (one per create_kernel call that used it)
STENCILS: dict[str, list] = {}
# every record created, in creation order
RECORDS: list = []
# id(assignment list) -> (name, list) ; keeps the list alive so ids are not reused
_ASSIGN_BY_ID: dict[int, tuple[str, Any]] = {}
# memo of create_kernel
_MEMO: dict[Any, Any] = {}
MEMO_ENABLED = True
MEMO_STATS = {"hit": 0, "miss": 0}
# monitors: callables m(phase, record, kwargs) with phase in {"pre", "post"}
MONITORS: list[Callable] = []


@dataclass
class KernelRecord:
    name: str
    assignments: list
    config: Any
    kernel: Any = None
    compiled: Any = None
    iteration_slice: Any = None
    num_threads: Any = None
    n_calls: int = 0
    extra: dict = field(default_factory=dict)

    # ---- IR helpers -------------------------------------------------------------------------
    def accesses(self):
        """[(is_write, field_name, offsets)] over all assignments."""
        import pystencils as ps

        out = []
        for a in self.assignments:
            out.append((True, a.lhs.field.name, tuple(int(o) for o in a.lhs.offsets)))
            for acc in a.rhs.atoms(ps.Field.Access):
                out.append((False, acc.field.name, tuple(int(o) for o in acc.offsets)))
        return out

    def fields(self):
        import pystencils as ps

        fs = {}
        for a in self.assignments:
            fs[a.lhs.field.name] = a.lhs.field
            for acc in a.rhs.atoms(ps.Field.Access):
                fs[acc.field.name] = acc.field
        return fs

    def written_fields(self):
        return [a.lhs.field.name for a in self.assignments]

    def reach(self) -> int:
        r = 0
        for _, _, offs in self.accesses():
            for o in offs:
                r = max(r, abs(o))
        return r

    def spatial_dims(self) -> int:
        return next(iter(self.fields().values())).spatial_dimensions

    def scalar_symbols(self):
        import pystencils as ps

        syms = set()
        for a in self.assignments:
            syms |= {s for s in a.rhs.free_symbols if not isinstance(s, ps.Field.Access)}
        return sorted(syms, key=str)


class _CompiledProxy:
    """Callable returned by Kernel.compile(); forwards to the JIT wrapper, reporting to monitors."""

    def __init__(self, record: KernelRecord, compiled):
        self._record = record
        self._compiled = compiled

    def __call__(self, **kwargs):
        rec = self._record
        rec.n_calls += 1
        # exact backend: object-dtype (Fraction) arrays are executed by the IR interpreter, so that the
        # repo's own Python wrappers can be run in exact rational arithmetic
        for v in kwargs.values():
            if getattr(v, "dtype", None) == object:
                from . import interp

                return interp.run_exact(rec, kwargs)
        if MONITORS:
            for m in list(MONITORS):
                m("pre", rec, kwargs)
            res = self._compiled(**kwargs)
            for m in list(MONITORS):
                m("post", rec, kwargs)
            return res
        return self._compiled(**kwargs)

    def __getattr__(self, item):
        return getattr(self._compiled, item)


class _KernelProxy:
    def __init__(self, record: KernelRecord):
        self._record = record

    def compile(self):
        rec = self._record
        if rec.compiled is None:
            rec.compiled = rec.kernel.compile()
        return _CompiledProxy(rec, rec.compiled)

    def __getattr__(self, item):
        return getattr(self._record.kernel, item)


def _config_key(config) -> str:
    return repr(config)


def _memo_key(assignments, config):
    import sympy as sp

    parts = []
    fields = {}
    import pystencils as ps

    for a in assignments:
        parts.append(sp.srepr(a.lhs) + "=" + sp.srepr(a.rhs))
        for acc in [a.lhs, *a.rhs.atoms(ps.Field.Access)]:
            f = acc.field
            fields[f.name] = (str(f.dtype), f.spatial_dimensions, str(f.shape), str(f.strides))
    return (tuple(parts), tuple(sorted(fields.items())), _config_key(config))


def install() -> None:
    global _INSTALLED
    compat.install()
    with _LOCK:
        if _INSTALLED:
            return
        import pystencils as ps

        orig_kernel = ps.kernel
        orig_create = ps.create_kernel

        def kernel_spy(func, *args, **kwargs):
            res = orig_kernel(func, *args, **kwargs)
            _ASSIGN_BY_ID[id(res)] = (func.__name__, res)
            return res

        def create_kernel_spy(assignments, *args, config=None, **kwargs):
            name = _ASSIGN_BY_ID.get(id(assignments), ("<anonymous>", None))[0]
            alist = list(assignments) if not hasattr(assignments, "main_assignments") else list(
                assignments.main_assignments
            )
            key = None
            rec = None
            if MEMO_ENABLED and config is not None and not args and not kwargs:
                try:
                    key = (name, _memo_key(alist, config))
                except Exception:  # pragma: no cover - key building must never break the repo
                    key = None
                if key is not None and key in _MEMO:
                    MEMO_STATS["hit"] += 1
                    rec = _MEMO[key]
            if rec is None:
                MEMO_STATS["miss"] += 1
                if config is not None:
                    kern = orig_create(assignments, *args, config=config, **kwargs)
                else:
                    kern = orig_create(assignments, *args, **kwargs)
                islice = None
                nthreads = None
                try:
                    islice = config.iteration_slice
                    nthreads = config.cpu.openmp.num_threads if config.cpu.openmp.enable else False
                except Exception:
                    pass
                rec = KernelRecord(
                    name=name,
                    assignments=alist,
                    config=config,
                    kernel=kern,
                    iteration_slice=islice,
                    num_threads=nthreads,
                )
                RECORDS.append(rec)
                STENCILS.setdefault(name, []).append(rec)
                if key is not None:
                    _MEMO[key] = rec
            return _KernelProxy(rec)

        kernel_spy._sophtverif = True  # type: ignore[attr-defined]
        ps.kernel = kernel_spy
        ps.create_kernel = create_kernel_spy
        _memoise_numba_generators()
        _INSTALLED = True


_NUMBA_GEN_MEMO: dict = {}


def _memoise_numba_generators() -> None:
    """Memoise the communicator kernel generators (pure functions of their arguments).

    Every call of a ``generate_*_kernel_{2,3}d`` function creates new numba dispatchers whose machine code is never
    unloaded; a check that builds hundreds of interaction objects per process would otherwise grow by gigabytes.
    The repo's generator still runs for every distinct argument tuple, so a change in /repo is still exercised.
    """
    import importlib

    for modname in ("sopht.numeric.immersed_boundary_ops.EulerianLagrangianGridCommunicator2D",
                    "sopht.numeric.immersed_boundary_ops.EulerianLagrangianGridCommunicator3D"):
        mod = importlib.import_module(modname)
        for name in list(vars(mod)):
            fn = getattr(mod, name)
            if not (name.startswith("generate_") and callable(fn)) or getattr(fn, "_sophtverif_memo", False):
                continue

            def make(fn=fn, name=name):
                def wrapper(*args, **kwargs):
                    key = (name, tuple(repr(a) + str(type(a)) for a in args),
                           tuple(sorted((k, repr(v) + str(type(v))) for k, v in kwargs.items())))
                    if key not in _NUMBA_GEN_MEMO:
                        _NUMBA_GEN_MEMO[key] = fn(*args, **kwargs)
                    return _NUMBA_GEN_MEMO[key]

                wrapper._sophtverif_memo = True  # type: ignore[attr-defined]
                wrapper.__wrapped__ = fn  # type: ignore[attr-defined]
                return wrapper

            setattr(mod, name, make())


def stencil(name: str) -> KernelRecord:
    """Latest record of the stencil function with that name."""
    return STENCILS[name][-1]


def reset_monitors() -> None:
    MONITORS.clear()
