#!/bin/bash
# Run every claimed check's quick (or thorough) command sequentially on /repo's working tree and report.
#   tools/run_all.sh [quick|thorough] [seed]
cd "$(dirname "$0")/.."
tier=${1:-quick}
seed=${2:-1}
rc=0
for id in $(python3 -c "import json; print(' '.join(c['property_id'] for c in json.load(open('MANIFEST.json'))['checks']))"); do
  s=$(date +%s)
  out=$(VERIF_SEED=$seed /venv/bin/python check.py $id --tier $tier 2>&1)
  code=$?
  e=$(date +%s)
  echo "$id exit=$code wall=$((e-s))s $(echo "$out" | grep "^\[$id\]" | tail -1)"
  if [ $code -ne 0 ]; then rc=1; echo "$out" | grep -E "VIOLATION|HARNESS|part=" | head -5; fi
done
exit $rc
