#!/venv/bin/python
"""Confirm a seeded change and run the checks against it.

  tools/seed_eval.py <seed-name> <dir-with-patch.diff,demo.py,notes.md> --breaks C01 [--props C01,C13] [--skip-tests]

1. copies patch.diff / demo.py / notes.md / pyst_shim.py into /verif/seeded/<seed-name>/
2. builds a scratch copy of /repo (sopht + tests) under /tmp, runs demo.py on the ORIGINAL source (must exit 0) and on the
   PATCHED source (must exit non-zero)
3. runs the pinned pytest suite on the patched copy and compares the passing ids with BASELINE.json's stable_pass
4. runs the listed checks (quick tier) against the patched copy (PYTHONPATH), records which report a VIOLATION
5. writes meta.json; removes the scratch copy
"""
import argparse, json, os, shutil, subprocess, sys, time
import xml.etree.ElementTree as ET

HERE = os.path.dirname(os.path.dirname(os.path.abspath(__file__)))


def run(cmd, env=None, cwd=None, timeout=3600):
    p = subprocess.run(cmd, env=env, cwd=cwd, capture_output=True, text=True, timeout=timeout)
    return p.returncode, p.stdout, p.stderr


def main():
    ap = argparse.ArgumentParser()
    ap.add_argument("name")
    ap.add_argument("src")
    ap.add_argument("--breaks", required=True)
    ap.add_argument("--props", default=None)
    ap.add_argument("--skip-tests", action="store_true")
    ap.add_argument("--needs", default="")
    a = ap.parse_args()
    dst = os.path.join(HERE, "seeded", a.name)
    os.makedirs(dst, exist_ok=True)
    for f in ("patch.diff", "demo.py", "notes.md", "pyst_shim.py"):
        if os.path.exists(os.path.join(a.src, f)) and os.path.abspath(a.src) != os.path.abspath(dst):
            shutil.copy(os.path.join(a.src, f), os.path.join(dst, f))
    scratch = f"/tmp/seedchk_{a.name}_{os.getpid()}"
    shutil.rmtree(scratch, ignore_errors=True)
    os.makedirs(scratch)
    for d in ("sopht", "tests"):
        shutil.copytree(os.path.join("/repo", d), os.path.join(scratch, d), ignore=shutil.ignore_patterns("__pycache__"))
    shutil.copy("/repo/pyproject.toml", scratch)
    meta = {"name": a.name, "breaks_property": a.breaks, "needs_to_manifest": a.needs, "ran": []}
    old_meta = {}
    if os.path.exists(os.path.join(dst, "meta.json")):
        old_meta = json.load(open(os.path.join(dst, "meta.json")))
    if not a.needs and old_meta.get("needs_to_manifest"):
        meta["needs_to_manifest"] = old_meta["needs_to_manifest"]
    env = dict(os.environ)
    env["PYTHONPATH"] = scratch + ":" + dst
    env.setdefault("XDG_CACHE_HOME", os.path.join(HERE, ".cache", "xdg"))
    env.setdefault("NUMBA_CACHE_DIR", os.path.join(HERE, ".cache", "numba"))
    env["MPLBACKEND"] = "Agg"
    demo = os.path.join(dst, "demo.py")
    try:
        t0 = time.time()
        rc0, o0, e0 = run(["/venv/bin/python", demo], env=env, cwd=scratch)
        meta["demo_on_original_exit"] = rc0
        meta["ran"].append(f"PYTHONPATH=<scratch copy of /repo> python demo.py -> exit {rc0} ({time.time() - t0:.0f}s)")
        rc, o, e = run(["patch", "-p1", "-s", "-d", scratch, "-i", os.path.join(dst, "patch.diff")])
        if rc != 0:
            meta["error"] = "patch did not apply: " + (o + e)[-500:]
            raise SystemExit(json.dumps(meta, indent=1))
        t0 = time.time()
        rc1, o1, e1 = run(["/venv/bin/python", demo], env=env, cwd=scratch)
        meta["demo_on_patched_exit"] = rc1
        meta["demo_patched_tail"] = (o1 + e1)[-600:]
        meta["ran"].append(f"patch -p1 < patch.diff ; python demo.py -> exit {rc1} ({time.time() - t0:.0f}s)")
        meta["demo_confirms"] = (rc0 == 0 and rc1 != 0)
        if not a.skip_tests:
            jx = os.path.join(scratch, "junit.xml")
            run(["/venv/bin/python", "-m", "pytest", "-q", "-p", "no:cacheprovider", "--timeout=900",
                 "--continue-on-collection-errors", f"--junitxml={jx}", "tests"], env=env, cwd=scratch)
            stable = set(json.load(open("/root/.vp/BASELINE.json"))["stable_pass"])
            res = {}
            for tc in ET.parse(jx).getroot().iter("testcase"):
                res[f"{tc.get('classname')}::{tc.get('name')}"] = not any(ch.tag in ("failure", "error", "skipped") for ch in tc)
            missing = sorted(s for s in stable if not res.get(s, False))
            meta["stable_tests_now_failing"] = missing
            meta["tests_passing_with_patch"] = sum(res.values())
            meta["ran"].append(f"pinned pytest suite on the patched copy: {sum(res.values())} pass, {len(missing)} of the 414 stable tests fail")
        if a.skip_tests:
            for k in ("stable_tests_now_failing", "tests_passing_with_patch"):
                if k in old_meta:
                    meta[k] = old_meta[k]
            meta["ran"].append("pinned pytest suite: result carried over from the previous evaluation of this change")
        props = (a.props or a.breaks).split(",")
        meta["checks"] = dict(old_meta.get("checks", {})) if a.skip_tests else {}
        meta["first_evaluation_checks"] = old_meta.get("first_evaluation_checks", old_meta.get("checks", {}))
        for prop in props:
            e2 = dict(os.environ)
            e2["PYTHONPATH"] = scratch
            e2["SOPHTVERIF_NO_EVIDENCE"] = "1"
            e2["SOPHTVERIF_REPLAY_DIR"] = os.path.join(scratch, "replays")
            t0 = time.time()
            rc, o, e = run(["/venv/bin/python", os.path.join(HERE, "check.py"), prop, "--tier", "quick"], env=e2, cwd=HERE, timeout=7200)
            viol = [l for l in o.splitlines() if l.startswith("VIOLATION")]
            msg = [l.strip() for l in o.splitlines() if l.startswith("  part=")]
            meta["checks"][prop] = {"exit": rc, "violation": bool(viol) and rc == 1, "wall_s": round(time.time() - t0, 1),
                                    "message": msg[0][:400] if msg else ""}
            meta["ran"].append(f"check.py {prop} --tier quick against the patched copy -> exit {rc}")
            print(prop, meta["checks"][prop], flush=True)
    finally:
        shutil.rmtree(scratch, ignore_errors=True)
    for k in ("baseline_checks", "seed_sweep"):  # written by tools/seed_base_eval.py / seed_sweep.py: kept across re-evaluations
        if k in old_meta and k not in meta:
            meta[k] = old_meta[k]
    json.dump(meta, open(os.path.join(dst, "meta.json"), "w"), indent=1)
    print(json.dumps({k: v for k, v in meta.items() if k not in ("demo_patched_tail",)}, indent=1))


if __name__ == "__main__":
    main()
