#!/usr/bin/env python3
"""Rewrites the 'Rounds 3-5' section of seeded/NOTES.md from seeded/*/meta.json (baseline_checks, checks) and the explanations below."""
import glob, json, os
HERE = os.path.dirname(os.path.dirname(os.path.abspath(__file__)))
EXPL = {
 'r3_c02_poisson2d_fast_len_padding': ("resolution families came from a fixed palette of FFT-friendly sizes", "C02 members may be nominal size + 1..6 cells"),
 'r3_c04_stable_timestep_scratch_leaks_into_ring': ("the harness computed dt itself, no public query between state set-up and step", "dt from the simulator (C01, C04, C14); preludes (earlier step, queries) in C04"),
 'r3_c11_relative_cutoff_null_modes': ("extents <= 24 in the quick tier", "C11 elongated grids (one axis 33..160 / 96)"),
 'r3_c12_component_views_cached_by_id': ("exact identities are decided on the stencil IR; the compiled part only ran simulators on their own arrays (C13 found it through re-used kernel objects and views)", "C12 compiled identities on drawn layouts"),
 'r3_c17_origin_ratio_guarded_division': ("the deviating parameter was always on the reader's side and never compared against 0", "deviation on the file's side, origin components 0 / -0 drawn"),
 'r3_c18_save_appends_to_existing_file': ("every save went to a fresh path", "C17 overwrite histories, C18 rolling checkpoints"),
 'r3_c20_flux_kernel_cache_ignores_reset_flag': ("generation order within a process was fixed by the registry order and sharding", "fresh-process parts with drawn generation order (C13, C20)"),
 'r4_c01_shared_default_filter_dict': ("the harness always passed every constructor argument", "default arguments omitted, documented default filter drawn, two live simulators / sequential cases in one process"),
 'r4_c02_flush_with_absolute_eps_threshold': ("structures of order-one amplitude only", "weak structures (peak 1e-7..1e3) in C02; amplitude factor 2^-24..2^16 in C01 / C04"),
 'r4_c03_distance_floored_at_eps': ("domain lengths over 4 decades only", "C03 domain lengths 1e-9..1e4, a third at micro scale"),
 'r4_c05_vectorized_linear_stencils_unit_stride': ("compiled wrappers saw contiguous arrays only (C13 found it)", "C05 compiled wrappers on drawn layouts"),
 'r4_c10_velocity_before_position_update': ("the PI model took marker kinematics from the grid the interaction drives", "kinematics recomputed from the body state"),
 'r4_c12_vectorized_assumes_unit_inner_stride': ("compiled part used contiguous arrays only (C13 found it)", "C12 compiled identities on drawn layouts"),
 'r4_c17_flat_string_registry_keys': ("names never joined to the same string", "name alphabets built from tokens; colliding (grid, field) pairs forced in a quarter of the multi-grid cases"),
 'r4_c19_char_func_blend_phase_threshold': ("three fixed blend widths", "blend width drawn per case"),
 'r4_c20_ssprk3_slabs_missing_upper_overlap': ("3-D extents <= 9..14", "long outermost axes everywhere, a third of the C20 cases with 17..50 planes"),
 'r5_c07_interp3d_vector_z_not_reset': ("zeroed Lagrangian output buffers", "dirty output buffers (C06, C07)"),
 'r5_c08_surface_fast_path_on_count_coincidence': ("~80 capped rods per run, strong taper only", "slight tapers + 4000-case marker-count scan"),
 'r5_c09_resting_body_early_return': ("poses never exactly at rest after having moved", "at-rest poses, earlier states always moving"),
 'r5_c12_penalised_update_skipped_on_overlapping_views': ("every array had its own allocation", "interleaved / pooled layouts (C13), paired arguments (C12)"),
 'r5_c15_thread_count_lands_in_reset_flag': ("interactions were built without num_threads", "thread counts handed to interactions, coupled_bodies2d scenario"),
 'r5_c16_limits_frozen_at_construction': ("parameters fixed per object", "parameter changes between queries (C16) and steps (C01)"),
 'r5_c18_helper_per_family_latest_index': ("only complete triples (+ unrelated names)", "orphan body/forcing files above the largest flow index"),
 'r5_c19_brinkmann_vector_reciprocal_in_output': ("outputs always separate arrays", "element-wise kernels used in place through a view object (C13, C19)"),
 'r5_c20_sum_kernel_same_base_heuristic': ("separate allocations", "pooled buffers (C20), pooled layout (C13)"),
}
p = os.path.join(HERE, "seeded", "NOTES.md")
s = open(p).read()
head = s[: s.index("## Rounds 3-5 (60 more changes)")]
rows, found_at_start, unclaimed = [], [], []
for f in sorted(glob.glob(os.path.join(HERE, "seeded", "r[345]_*", "meta.json"))):
    m = json.load(open(f)); own = m["breaks_property"]; n = m["name"]
    b = (m.get("baseline_checks") or {}).get(own, {}).get("violation")
    ok = m.get("checks", {}).get(own, {}).get("violation")
    if not ok:
        unclaimed.append(n)
    elif b is False:
        e = EXPL.get(n, ("", ""))
        rows.append(f"| {n} | {m.get('needs_to_manifest', '')} | {e[0]} | {e[1]} |")
    else:
        found_at_start.append(n)
txt = f'''## Rounds 3-5 (60 more changes): what the own check did at the start of the session, and what was widened

"MISSED at start" = the own-property check in the version the session started from (commit bf5e198, `baseline_checks` in meta.json) did
not report the change at VERIF_SEED=1; every one of them is reported by the current check at seeds 1, 2 and 3 (`seed_sweep`). The
{len(rows)} changes below were missed at the start; {len(found_at_start)} others were already found by the start-of-session check (some of them
only at some seeds: the sweeps led to re-weighted generators, DESIGN section 12); {len(unclaimed)} are not claimed.

| seeded change | what it needs | what was missing | widening (DESIGN section 12) |
|---|---|---|---|
''' + "\n".join(rows) + '''

Not claimed (outside the domain the properties define, see DESIGN section 12): r5_c01_damping_faces_interleaved (overlapping boundary
zones, n < 2*width) and r5_c04_filter_buffers_renumbered_order0 (filter order 0).
'''
open(p, "w").write(head + txt)
print(len(rows), len(found_at_start), unclaimed)
