#!/venv/bin/python
"""Sensitivity protocol (DESIGN 1.9): run a check against a mutated scratch copy of sopht.

  tools/mut.py <mutant-id> [<mutant-id> ...] [--props C03,C01] [--tier quick] [--keep]
  tools/mut.py --list
  tools/mut.py --patch file.diff --props C03      (seeded patch: applied to a scratch copy)

The scratch copy lives under /tmp/sopht-mut-<id>/ and is selected through PYTHONPATH (the editable
install of /repo is a plain .pth path entry, so PYTHONPATH takes precedence); /repo is never touched.
Exit status: 0 when every (mutant, property) pair was detected (check exit 1 + VIOLATION line).
"""
import argparse, json, os, shutil, subprocess, sys, time

HERE = os.path.dirname(os.path.dirname(os.path.abspath(__file__)))
sys.path.insert(0, HERE)
from mutants.registry import MUTANTS  # noqa: E402


def make_copy(tag):
    d = f"/tmp/sopht-mut-{tag}"
    if os.path.exists(d):
        shutil.rmtree(d)
    os.makedirs(d)
    shutil.copytree("/repo/sopht", os.path.join(d, "sopht"),
                    ignore=shutil.ignore_patterns("__pycache__"))
    return d


def apply_mutant(d, m):
    edits = m["edits"] if "edits" in m else [m]
    for e in edits:
        p = os.path.join(d, e["file"])
        s = open(p).read()
        cnt = s.count(e["old"])
        want = e.get("count", 1)
        if cnt < 1 or (want != "all" and cnt != want):
            raise SystemExit(f"mutant {m['id']}: pattern occurs {cnt}x in {e['file']} (expected {want})")
        s = s.replace(e["old"], e["new"]) if want == "all" else s.replace(e["old"], e["new"], 1) if want == 1 else s.replace(e["old"], e["new"])
        open(p, "w").write(s)


def run_check(d, prop, tier, seed, extra_args=()):
    env = dict(os.environ)
    env["PYTHONPATH"] = d + (":" + env["PYTHONPATH"] if env.get("PYTHONPATH") else "")
    env["VERIF_SEED"] = str(seed)
    env["SOPHTVERIF_NO_EVIDENCE"] = "1"
    t0 = time.time()
    pr = subprocess.run(["/venv/bin/python", os.path.join(HERE, "check.py"), prop, "--tier", tier, *extra_args],
                        env=env, capture_output=True, text=True, cwd=HERE)
    out = pr.stdout
    viol = [l for l in out.splitlines() if l.startswith("VIOLATION")]
    msg = [l for l in out.splitlines() if l.startswith("  part=")]
    return {"prop": prop, "exit": pr.returncode, "violation": bool(viol) and pr.returncode == 1,
            "wall_s": round(time.time() - t0, 1), "msg": (msg[0][:300] if msg else ""),
            "stderr_tail": pr.stderr[-800:] if pr.returncode == 2 else ""}


def main():
    ap = argparse.ArgumentParser()
    ap.add_argument("ids", nargs="*")
    ap.add_argument("--props", default=None)
    ap.add_argument("--tier", default="quick")
    ap.add_argument("--seed", type=int, default=1)
    ap.add_argument("--list", action="store_true")
    ap.add_argument("--keep", action="store_true")
    ap.add_argument("--patch", default=None)
    ap.add_argument("--json", default=None)
    ap.add_argument("--parts", default=None)
    a = ap.parse_args()
    if a.list:
        for m in MUTANTS:
            print(m["id"], ",".join(m["props"]), "-", m.get("note", ""))
        return 0
    results = []
    ok = True
    extra = ["--parts", a.parts] if a.parts else []
    if a.patch:
        tag = "patch-" + os.path.basename(a.patch).replace(".", "_") + f"-{os.getpid()}"
        d = make_copy(tag)
        try:
            subprocess.check_call(["patch", "-p1", "-s", "-d", d, "-i", os.path.abspath(a.patch)])
            for prop in a.props.split(","):
                r = run_check(d, prop, a.tier, a.seed, extra)
                r["mutant"] = a.patch
                results.append(r)
                ok &= r["violation"]
                print(json.dumps(r))
        finally:
            if not a.keep:
                shutil.rmtree(d, ignore_errors=True)
    byid = {m["id"]: m for m in MUTANTS}
    for mid in a.ids:
        m = byid[mid]
        d = make_copy(f"{mid}-{os.getpid()}")
        try:
            apply_mutant(d, m)
            for prop in (a.props.split(",") if a.props else m["props"]):
                r = run_check(d, prop, a.tier, a.seed, extra)
                r["mutant"] = mid
                results.append(r)
                ok &= r["violation"]
                print(json.dumps(r))
                sys.stdout.flush()
        finally:
            if not a.keep:
                shutil.rmtree(d, ignore_errors=True)
    if a.json:
        json.dump(results, open(a.json, "w"), indent=1)
    return 0 if ok else 1


if __name__ == "__main__":
    sys.exit(main())
