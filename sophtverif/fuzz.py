"""Coverage-guided search (atheris / libFuzzer) over the SAME generators and oracles as the Hypothesis parts.

A fuzz part re-uses the strategy and the body of a Hypothesis part: libFuzzer mutates a byte string, Hypothesis'
``fuzz_one_input`` decodes it into a case of the part's strategy, the part's body (the oracle) judges it, and branch coverage of
the instrumented repo modules (pure-Python ones: sopht/utils, sopht/simulator/immersed_body ...) steers the mutation. libFuzzer
ends the process when it is done, so the campaign runs in a child process (``python -m sophtverif.fuzz ...``) that reports through
a JSON file; the parent part turns a reported failure into an ordinary Violation whose replay file holds the decoded case, i.e. a
failing fuzz input is replayed WITHOUT atheris and without Hypothesis, like every other replay.

A campaign is pinned only approximately by -seed (libFuzzer); the saved case is the reproducible unit.
"""

from __future__ import annotations

import importlib
import json
import os
import shutil
import subprocess
import sys
import time

from .runner import VERIF_ROOT, Part, Violation, _json_default, case_digest, derive_seed


def atheris_available() -> bool:
    try:
        import atheris  # noqa: F401

        return True
    except Exception:  # noqa: BLE001
        return False


def make_fuzz_part(name, base: Part, instrument, runs, max_time, weight=1.0):
    """A Part that launches one libFuzzer campaign per variant of ``base`` (same strategy, same oracle)."""
    from hypothesis import strategies as st

    def variants(tier):
        return list(base.variants(tier)) if base.variants is not None else [None]

    def strategy(tier, variant):
        return st.just({"fuzz_campaign": variant})

    def body(case, ctx):
        if not (isinstance(case, dict) and "fuzz_campaign" in case):
            return base.body(case, ctx)  # replay of a decoded failing input
        if not atheris_available():
            ctx.note(nontrivial=False, labels=["atheris_not_available"])
            return
        variant = case["fuzz_campaign"]
        tier = ctx.tier
        nvar = max(1, len(variants(tier)))
        scratch = os.path.join(VERIF_ROOT, "scratch", f"fuzz-{ctx.prop_id}-{name}-{os.getpid()}-{case_digest(variant)}")
        shutil.rmtree(scratch, ignore_errors=True)
        os.makedirs(os.path.join(scratch, "corpus"))
        out = os.path.join(scratch, "result.json")
        # the campaign's share of the part's budget
        t_max = max(5.0, min(float(max_time[tier]), 0.8 * ctx.budget_s * min(1.0, 16.0 / nvar)))
        cmd = [sys.executable, "-m", "sophtverif.fuzz", "--module", ctx_module(ctx), "--part", base.name,
               "--variant", json.dumps(variant, default=_json_default), "--tier", tier, "--out", out,
               "--instrument", ",".join(instrument), "--runs", str(int(runs[tier])), "--max-time", str(int(t_max)),
               "--seed", str(derive_seed(ctx.seed, ctx.prop_id, name, json.dumps(variant, default=_json_default)) % (2**31 - 1) + 1),
               "--corpus", os.path.join(scratch, "corpus")]
        env = dict(os.environ)
        env["PYTHONPATH"] = os.pathsep.join([VERIF_ROOT] + [p for p in sys.path if p and os.path.isdir(p)])
        try:
            pr = subprocess.run(cmd, env=env, cwd=VERIF_ROOT, capture_output=True, text=True, timeout=t_max * 3 + 300)
            res = json.load(open(out)) if os.path.exists(out) else None
        except subprocess.TimeoutExpired:
            res, pr = (json.load(open(out)) if os.path.exists(out) else None), None
        finally:
            pass
        try:
            if res is None:
                from .runner import HarnessError

                raise HarnessError(f"fuzz campaign produced no result file; stderr tail: {(pr.stderr if pr else '')[-1500:]}")
            ctx.labels["fuzz_executions"] += int(res["executions"])
            ctx.labels["fuzz_distinct_cases"] += int(res["distinct"])
            ctx.labels["fuzz_nontrivial_cases"] += int(res["nontrivial"])
            ctx.labels["fuzz_invalid_byte_strings"] += int(res["invalid"])
            ctx.extra["fuzz_coverage_features_last"] = res.get("features")
            for lab, n in res.get("labels", {}).items():
                ctx.labels["fuzz/" + lab] += int(n)
            for d in res.get("nontrivial_digests", [])[:2000]:
                ctx.nontrivial.add(d)
            if res.get("samples") and len(ctx.samples) < 3:
                ctx.samples.extend(res["samples"][: 3 - len(ctx.samples)])
            ctx.note(nontrivial=res["nontrivial"] > 0, labels=["campaigns"])
            if res.get("failure"):
                v = Violation("[found by coverage-guided search] " + res["failure"]["message"], key=res["failure"].get("key"))
                v.case_override = res["failure"]["case"]
                raise v
            if res.get("error"):
                from .runner import HarnessError

                raise HarnessError("fuzz campaign harness error: " + res["error"][-1500:])
        finally:
            shutil.rmtree(scratch, ignore_errors=True)

    return Part(name=name, strategy=strategy, body=body, variants=variants,
                examples={"quick": 1, "thorough": 1}, shards={"quick": 12, "thorough": 12}, weight=weight,
                min_examples_per_variant=1)


def ctx_module(ctx):
    return f"sophtverif.props.{ctx.prop_id.lower()}"


# ------------------------------------------------------------------------------------------------ child process
def _patch_bytestring_provider():
    """Hypothesis 6.168: BytestringProvider.draw_integer compares the raw bit draw with [min_value, max_value] without adding
    min_value, so any integer draw whose lower bound exceeds 2**bits - 1 (e.g. the key shuffle of fixed_dictionaries,
    integers(100, 103)) consumes the whole buffer and the input is discarded as an overrun.  Offset the draw instead."""
    from hypothesis.internal.conjecture.providers import BytestringProvider

    def draw_integer(self, min_value=None, max_value=None, *, weights=None, shrink_towards=0):
        if min_value is None and max_value is None:
            min_value, max_value = -(2**127), 2**127 - 1
        elif min_value is None:
            min_value = max_value - 2**64
        elif max_value is None:
            max_value = min_value + 2**64
        if min_value == max_value:
            return min_value
        span = max_value - min_value
        bits = span.bit_length()
        value = self._draw_bits(bits)
        while value > span:
            value = self._draw_bits(bits)
        return min_value + value

    BytestringProvider.draw_integer = draw_integer


def _child(argv):
    import argparse

    ap = argparse.ArgumentParser()
    ap.add_argument("--module")
    ap.add_argument("--part")
    ap.add_argument("--variant")
    ap.add_argument("--tier")
    ap.add_argument("--out")
    ap.add_argument("--instrument")
    ap.add_argument("--runs", type=int)
    ap.add_argument("--max-time", type=int)
    ap.add_argument("--seed", type=int)
    ap.add_argument("--corpus")
    a = ap.parse_args(argv)
    state = {"executions": 0, "distinct": 0, "nontrivial": 0, "invalid": 0, "labels": {}, "nontrivial_digests": [], "samples": [],
             "failure": None, "error": None, "features": None}

    def flush():
        tmp = a.out + ".tmp"
        with open(tmp, "w") as f:
            json.dump(state, f, default=_json_default)
        os.replace(tmp, a.out)

    try:
        import warnings

        warnings.filterwarnings("ignore")
        from . import compat

        compat.setup_env()
        import atheris

        with atheris.instrument_imports(include=[m for m in a.instrument.split(",") if m]):
            for m in a.instrument.split(","):
                importlib.import_module(m)
        from . import capture

        capture.install()
        from hypothesis import HealthCheck, Phase, given, settings

        _patch_bytestring_provider()
        from .runner import Ctx

        mod = importlib.import_module(a.module)
        part = next(p for p in mod.PARTS if p.name == a.part)
        variant = json.loads(a.variant)
        ctx = Ctx(mod.PROPERTY_ID, a.part, a.tier, 0, 0, 1e9)
        if part.setup is not None:
            part.setup(ctx)
        strat = part.strategy(a.tier, variant) if part.variants is not None else part.strategy(a.tier)
        seen = set()

        @settings(database=None, deadline=None, suppress_health_check=list(HealthCheck), phases=[Phase.generate])
        @given(strat)
        def test(case):
            state["executions"] += 1
            d = case_digest(case)
            new = d not in seen
            seen.add(d)
            ctx.begin_case()
            try:
                part.body(case, ctx)
            except Violation as v:
                if v.key is not None and v.key in ctx.known:
                    return
                state["failure"] = {"case": json.loads(json.dumps(case, default=_json_default)), "message": v.msg, "key": v.key}
                raise
            if new:
                state["distinct"] += 1
                if ctx._cur_nontrivial:
                    state["nontrivial"] += 1
                    if len(state["nontrivial_digests"]) < 2000:
                        state["nontrivial_digests"].append(d)
                    if len(state["samples"]) < 2:
                        from .runner import _shorten

                        state["samples"].append(_shorten(case))
                for lab in set(ctx._cur_labels):
                    state["labels"][lab] = state["labels"].get(lab, 0) + 1

        fuzz_one = test.hypothesis.fuzz_one_input
        t_last = [time.time()]
        n_calls = [0]

        def one_input(data):
            n_calls[0] += 1
            before = state["executions"]
            try:
                fuzz_one(data)
            except Violation:
                flush()
                os._exit(0)  # the first failure ends the campaign; the parent reports it
            if state["executions"] == before:
                state["invalid"] += 1
            if time.time() - t_last[0] > 0.5 or n_calls[0] >= a.runs - 3:
                t_last[0] = time.time()
                flush()

        flush()
        # a few valid inputs from the strategy itself would need Hypothesis internals; start from the empty corpus plus
        # short random byte strings (libFuzzer's own), which fuzz_one_input decodes into small valid cases
        import hashlib

        for i in range(8):  # starting corpus: byte strings long enough to decode into complete cases (all-zero and pseudo-random)
            blob = b"".join(hashlib.sha256(f"{a.seed}-{i}-{j}".encode()).digest() for j in range(256)) if i else bytes(8192)
            with open(os.path.join(a.corpus, f"seed{i}"), "wb") as f:
                f.write(blob)
        args = [sys.argv[0], a.corpus, f"-runs={a.runs}", f"-max_total_time={a.max_time}", f"-seed={a.seed}",
                "-max_len=16384", "-len_control=0", "-print_final_stats=0", "-verbosity=0", "-close_fd_mask=0"]
        atheris.Setup(args, one_input)
        import atexit  # noqa: F401  (does not run under libFuzzer's exit; results are flushed explicitly)

        # libFuzzer calls exit() itself; make the last flush happen from its exit path as well
        import signal  # noqa: F401

        try:
            atheris.Fuzz()
        finally:
            flush()
    except Violation:
        flush()
        os._exit(0)
    except SystemExit:
        flush()
        raise
    except BaseException as e:  # noqa: BLE001
        import traceback

        if state["failure"] is None:
            state["error"] = "".join(traceback.format_exception(type(e), e, e.__traceback__))
        flush()
        os._exit(0)


if __name__ == "__main__":
    _child(sys.argv[1:])
