"""Generated simulator configurations (DESIGN section 2, ``ns_config``) and simulator construction.

Boundary-zone damping kernels embed grid-dependent constants in their C source, so every new
(dtype, dx, extents, width, threads) costs ~1.3 s of g++ per kernel (4 in 2-D, 6 in 3-D).  The quick
tier therefore draws (shape, x_range) from a fixed palette whenever width > 0 (pre-compiled by the
setup command); with width == 0 - and always in the thorough tier - the geometry is free.
"""

from __future__ import annotations

import numpy as np
from hypothesis import strategies as st

from . import gen

PALETTE = {
    2: [((9, 11), 1.1), ((10, 8), 0.5), ((12, 16), 1.0), ((17, 13), 0.65), ((24, 20), 2.0),
        ((21, 24), 1.2), ((26, 31), 3.1), ((32, 28), 1.0)],
    3: [((9, 8, 10), 1.0), ((10, 12, 11), 1.1), ((13, 11, 12), 0.6), ((14, 14, 14), 0.7),
        ((16, 18, 17), 1.7), ((20, 18, 22), 1.1)],
}
SIM_THREADS = 2

SIM_KINDS = ["ns2d", "ns3d", "passive2d", "passive3d_scalar", "passive3d_vector"]


def sim_dim(kind: str) -> int:
    return 2 if kind.endswith("2d") else 3


def geometry(dim: int, tier: str, width: int, n_min: int, n_max: int):
    """strategy for (shape, x_range)."""
    # domain sizes over six decades (micro-scale to kilometre-scale set-ups): absolute tolerances hidden in the code show up there
    free = st.tuples(gen.grid_shape(dim, n_min, n_max, long_axis=(70 if dim == 2 else 36) if tier == "quick" else (140 if dim == 2 else 70)), st.one_of(gen.nice_or_log(0.1, 10.0, nice=(1.0,)), gen.nice_or_log(0.1, 10.0, nice=(1.0,)),
                                                                  gen.log_uniform(1e-3, 1e3), gen.log_uniform(1e-9, 1e-5))).map(list)
    pal = [[list(s), xr] for s, xr in PALETTE[dim] if min(s) >= n_min and max(s) <= max(n_max, n_min)]
    if width == 0 or not pal:
        return free
    if tier == "thorough":
        return st.one_of(st.sampled_from(pal), st.sampled_from(pal), free)
    return st.sampled_from(pal)


@st.composite
def ns_config(draw, tier: str, kinds=None, n_min_fn=None, widths=(0, 1, 2, 3, 4), n_max=None,
              filters=True, fastdiag=True):
    """Configuration dict for one of the three simulator classes.

    n_min_fn(cfg_partial) -> minimal extent (defaults to max(5, 2*width+1)).
    """
    kind = draw(st.sampled_from(list(kinds or SIM_KINDS)))
    dim = sim_dim(kind)
    cfg = {"sim": kind, "dtype": draw(gen.precisions), "threads": SIM_THREADS}
    # inviscid runs (kinematic_viscosity = 0, e.g. the Hill-vortex example) are admissible: the prefactor of every diffusion
    # kernel is then exactly zero
    cfg["nu"] = draw(st.one_of(gen.log_uniform(1e-4, 1.0), gen.log_uniform(1e-4, 1.0), gen.log_uniform(1e-4, 1.0), st.just(0.0)))
    cfg["time0"] = draw(st.sampled_from([0.0, 0.0, 1.5, 1234.5678]))
    if kind.startswith("ns"):
        cfg["with_forcing"] = draw(st.booleans())
        cfg["with_free_stream"] = draw(st.booleans())
        cfg["rho"] = draw(gen.nice_or_log(0.1, 10.0, nice=(1.0,)))
        cfg["width"] = draw(st.sampled_from(list(widths)))
        if kind == "ns3d":
            cfg["filter"] = draw(st.one_of(st.none(), st.just({"type": "multiplicative", "order": 2}), st.fixed_dictionaries(
                {"type": st.sampled_from(["multiplicative", "convolution"]), "order": st.sampled_from([1, 2, 3, 3, 4])}),
                st.fixed_dictionaries({"type": st.sampled_from(["multiplicative", "convolution"]), "order": st.sampled_from([1, 2, 3, 3, 4])}))) \
                if filters else None
            cfg["poisson"] = draw(st.sampled_from(["greens_function_convolution", "fast_diagonalisation"])) \
                if fastdiag else "greens_function_convolution"
        else:
            cfg["filter"] = None
            cfg["poisson"] = "greens_function_convolution"
    else:
        cfg["with_forcing"] = False
        cfg["with_free_stream"] = False
        cfg["rho"] = 1.0
        cfg["width"] = 0
        cfg["filter"] = None
        cfg["poisson"] = None
    # arguments equal to their documented default are left out of the constructor call (the way users write it)
    cfg["omit_defaults"] = draw(st.booleans())
    lo = n_min_fn(cfg) if n_min_fn else max(5, 2 * cfg["width"] + 1)
    hi_default = {2: {"quick": 24, "thorough": 64}, 3: {"quick": 12, "thorough": 24}}[dim][tier]
    hi = max(n_max[dim] if n_max else hi_default, lo)
    shape, x_range = draw(geometry(dim, tier, cfg["width"], lo, hi))
    cfg["shape"] = list(shape)
    cfg["x_range"] = float(x_range)
    return cfg


DOCUMENTED_DEFAULTS = {"real_t": np.float32, "num_threads": 1, "time": 0.0, "with_forcing": False, "with_free_stream_flow": False,
                       "flow_density": 1.0, "penalty_zone_width": 2, "filter_vorticity": False,
                       "filter_setting_dict": {"order": 2, "type": "multiplicative"},
                       "poisson_solver_type": "greens_function_convolution", "field_type": "scalar"}


def _drop_defaults(kw):
    """the same configuration, written the way a user would: arguments equal to their documented default are left out."""
    out = {}
    for k, v in kw.items():
        if k in DOCUMENTED_DEFAULTS:
            d = DOCUMENTED_DEFAULTS[k]
            if (v is d) or (not isinstance(v, type) and not isinstance(d, type) and type(v) is type(d) and v == d):
                continue
        out[k] = v
    return out


def build_sim(cfg, num_threads=None):
    import sopht.simulator as sps

    real_t = gen.np_dtype(cfg["dtype"])
    thr = cfg["threads"] if num_threads is None else num_threads
    kind = cfg["sim"]
    shape = tuple(cfg["shape"])
    omit = bool(cfg.get("omit_defaults", False))
    if kind == "ns2d":
        kw = dict(grid_size=shape, x_range=cfg["x_range"], kinematic_viscosity=cfg["nu"], real_t=real_t,
                  num_threads=thr, time=cfg["time0"], with_forcing=cfg["with_forcing"],
                  with_free_stream_flow=cfg["with_free_stream"], flow_density=cfg["rho"],
                  penalty_zone_width=cfg["width"])
        return sps.UnboundedNavierStokesFlowSimulator2D(**(_drop_defaults(kw) if omit else kw))
    if kind == "ns3d":
        kw = dict(grid_size=shape, x_range=cfg["x_range"], kinematic_viscosity=cfg["nu"], real_t=real_t,
                  num_threads=thr, time=cfg["time0"], with_forcing=cfg["with_forcing"],
                  with_free_stream_flow=cfg["with_free_stream"], flow_density=cfg["rho"],
                  filter_vorticity=bool(cfg["filter"]), poisson_solver_type=cfg["poisson"],
                  penalty_zone_width=cfg["width"])
        if cfg["filter"]:
            kw["filter_setting_dict"] = {"order": cfg["filter"]["order"], "type": cfg["filter"]["type"]}
        return sps.UnboundedNavierStokesFlowSimulator3D(**(_drop_defaults(kw) if omit else kw))
    dim = sim_dim(kind)
    ft = "vector" if kind.endswith("vector") else "scalar"
    kw = dict(kinematic_viscosity=cfg["nu"], grid_dim=dim, grid_size=shape, x_range=cfg["x_range"],
              real_t=real_t, num_threads=thr, time=cfg["time0"], field_type=ft)
    return sps.PassiveTransportFlowSimulator(**(_drop_defaults(kw) if omit else kw))


def primary_field_of(sim, cfg):
    return sim.vorticity_field if cfg["sim"].startswith("ns") else sim.primary_field


def config_labels(cfg):
    labs = [cfg["sim"], cfg["dtype"], f"width{cfg['width']}"] + (["inviscid_nu0"] if cfg["nu"] == 0.0 else [])
    if cfg["sim"].startswith("ns"):
        labs.append("forcing_on" if cfg["with_forcing"] else "forcing_off")
        labs.append("free_stream_on" if cfg["with_free_stream"] else "free_stream_off")
        if cfg["rho"] != 1.0:
            labs.append("rho_ne_1")
    if cfg.get("filter"):
        labs.append(f"filter_{cfg['filter']['type']}_{cfg['filter']['order']}")
    elif cfg["sim"] == "ns3d":
        labs.append("filter_off")
    if cfg.get("poisson") == "fast_diagonalisation":
        labs.append("fastdiag")
    labs.append("noncubic" if len(set(cfg["shape"])) > 1 else "cubic")
    if cfg.get("omit_defaults"):
        labs.append("default_arguments_omitted")
    return labs


def stable_dt(cfg, dx, umax, frac):
    """dt = frac * min(CFL-1 advective step, diffusion-limit step)."""
    dim = sim_dim(cfg["sim"])
    return float(frac) * min(dx / max(umax, 1e-30), dx * dx / (2 * dim * max(cfg["nu"], 1e-30)))


def choose_dt(sim, cfg, dx, umax, frac, from_sim: bool):
    """dt for one step.  from_sim: ask the simulator itself (dt = sim.compute_stable_timestep(frac), what every example does
    right before time_step), so that the side effects of that public query on the simulator's scratch arrays are part of the
    history; falls back to the harness' own value when the simulator's limit is far larger (zero velocity and viscosity)."""
    own = stable_dt(cfg, dx, umax, frac)
    if not from_sim:
        return own
    d = float(sim.compute_stable_timestep(dt_prefac=float(frac)))
    if np.isfinite(d) and 0.0 < d <= 4.0 * stable_dt(cfg, dx, umax, 1.0) * max(float(frac), 1e-3):
        return d
    return own
