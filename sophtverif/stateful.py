"""Thin adapter from an (init, rules, step) description to a Hypothesis RuleBasedStateMachine.

The machine only *generates* operation dicts; the semantics live in ``step(state, op, ctx)``, so the
recorded trace (a JSON list of ops) can be replayed without Hypothesis by ``trace_body``.
"""

from __future__ import annotations

import copy
import json

from hypothesis.stateful import RuleBasedStateMachine, initialize, precondition, rule

from .runner import Violation, _json_default


def make_machine(name, new_state, init_strategy, rules, step, close=None):
    """rules: {rule_name: (dict_of_strategies, precondition(state) or None)}."""

    def _init(self):
        RuleBasedStateMachine.__init__(self)
        ctx = type(self)._ctx
        self.trace = []
        self.skip = False
        self.state = None
        if ctx.out_of_time():
            from .runner import BudgetStop

            raise BudgetStop()
        ctx.begin_case()
        self.state = new_state(ctx)

    def _apply(self, op):
        if self.skip:
            return
        ctx = type(self)._ctx
        op = json.loads(json.dumps(op, default=_json_default))
        self.trace.append(op)
        try:
            step(self.state, op, ctx)
        except Violation as v:
            if v.key is not None and v.key in ctx.known:
                ctx.known_hits[v.key] += 1
                return
            ctx.last_failure = (copy.deepcopy(self.trace), v.msg, v.key)
            raise

    def _teardown(self):
        if self.skip:
            return
        ctx = type(self)._ctx
        try:
            if close is not None and self.state is not None:
                close(self.state)
        finally:
            ctx.end_case(self.trace)

    attrs = {"__init__": _init, "_apply": _apply, "teardown": _teardown, "_ctx": None}

    def _mk_init():
        @initialize(cfg=init_strategy)
        def _initialize(self, cfg):
            self._apply({"op": "init", **cfg})

        return _initialize

    attrs["_initialize"] = _mk_init()

    for rname, (strats, pre) in rules.items():

        def _mk(rname=rname, strats=strats, pre=pre):
            def fn(self, **kw):
                self._apply({"op": rname, **kw})

            fn.__name__ = rname
            r = rule(**strats)(fn)
            if pre is not None:
                r = precondition(lambda self, pre=pre: (self.state is not None) and pre(self.state))(r)
            return r

        attrs[rname] = _mk()

    return type(name, (RuleBasedStateMachine,), attrs)


def trace_body(new_state, step, close=None):
    def body(trace, ctx):
        state = new_state(ctx)
        try:
            for op in trace:
                step(state, op, ctx)
        finally:
            if close is not None:
                close(state)

    return body
