#!/venv/bin/python
"""Detection rate over VERIF_SEED values: run the own-property quick check of a seeded change at several seeds.

  tools/seed_sweep.py <seed-name> [--seeds 2,3] [--props C20]

Records meta["seed_sweep"] = {"<prop>": {"<seed>": true/false}} in seeded/<name>/meta.json (a check that detects a change at one
seed only by luck shows up here).  /repo itself is never modified (scratch copy + PYTHONPATH).
"""
import argparse, json, os, shutil, subprocess

HERE = os.path.dirname(os.path.dirname(os.path.abspath(__file__)))


def main():
    ap = argparse.ArgumentParser()
    ap.add_argument("name")
    ap.add_argument("--seeds", default="2,3")
    ap.add_argument("--props", default=None)
    a = ap.parse_args()
    dst = os.path.join(HERE, "seeded", a.name)
    meta = json.load(open(os.path.join(dst, "meta.json")))
    props = (a.props or meta["breaks_property"]).split(",")
    scratch = f"/tmp/seedsweep_{a.name}_{os.getpid()}"
    shutil.rmtree(scratch, ignore_errors=True)
    os.makedirs(scratch)
    try:
        shutil.copytree("/repo/sopht", os.path.join(scratch, "sopht"), ignore=shutil.ignore_patterns("__pycache__"))
        r = subprocess.run(["patch", "-p1", "-s", "-d", scratch, "-i", os.path.join(dst, "patch.diff")], capture_output=True, text=True)
        if r.returncode != 0:
            raise SystemExit("patch did not apply: " + r.stdout + r.stderr)
        out = dict(meta.get("seed_sweep", {}))
        for prop in props:
            res = dict(out.get(prop, {}))
            for sd in a.seeds.split(","):
                e = dict(os.environ)
                e.update(PYTHONPATH=scratch, SOPHTVERIF_NO_EVIDENCE="1", SOPHTVERIF_REPLAY_DIR=os.path.join(scratch, "replays"),
                         VERIF_SEED=sd)
                p = subprocess.run(["/venv/bin/python", os.path.join(HERE, "check.py"), prop, "--tier", "quick"], env=e, cwd=HERE,
                                   capture_output=True, text=True, timeout=7200)
                res[sd] = bool(p.returncode == 1 and "VIOLATION" in p.stdout)
                print(a.name, prop, "seed", sd, "->", "detected" if res[sd] else f"NOT detected (exit {p.returncode})", flush=True)
            out[prop] = res
        meta = json.load(open(os.path.join(dst, "meta.json")))
        meta["seed_sweep"] = out
        json.dump(meta, open(os.path.join(dst, "meta.json"), "w"), indent=1)
    finally:
        shutil.rmtree(scratch, ignore_errors=True)


if __name__ == "__main__":
    main()
