"""C13 - every grid kernel computes its documented formula on its documented region only."""

from __future__ import annotations

import numpy as np
from hypothesis import strategies as st

from .. import gen, kernels
from ..refs import flow_step as fs
from ..runner import Part, Violation

PROPERTY_ID = "C13"
LEVEL = "exploration"
RULE = (
    "Registry with one entry per public generator of sopht.numeric.eulerian_grid_ops (50 generators) and option "
    "combination (field_type, reset_ghost_zone, width, filter order/type ...). Hypothesis draws an entry, a shape "
    "from the minimal admissible one upward (non-cubic), precision, thread count, a memory layout per array "
    "(C-contiguous | every-other-element strided view | sub-block of a larger array | transposed (F-order) view), "
    "field contents (all kinds) and scalar arguments. Outputs are pre-filled with per-cell distinct sentinels. "
    "Oracle: closed-form numpy reference written from the docstring; inside the documented region "
    "|out-ref| <= 64*eps*S; OUTSIDE the region bit-identical to the sentinel / previous content; every input "
    "array and the base memory around every view bit-identical to its snapshot. Non-trivial: a non-contiguous "
    "layout for at least one array, or a non-cubic shape, or the minimal admissible shape. Distinct = digest of case. "
    "Part registry_complete (enumeration): every name in spne.__all__ starting with gen_ has at least one entry."
    " Layouts also: pooled (slices of one allocation) and interleaved; element-wise kernels also in place through a view object; scalar arguments incl. exact 0/+-1; one long axis; part generation_order_fresh_process: kernels of one operator family generated in a drawn order in a new process."
)
ASSUMPTIONS = [
    "inputs finite with magnitudes within [2^-8, 2^8]; penalty factors >= 0 and indicators in [0,1] for Brinkmann kernels",
    "norm-wise tolerance with S = sum of absolute values of the terms of the documented formula (per entry)",
]
BUDGET_S = {"quick": 170.0, "thorough": 3000.0}

# "pooled": the array is a slice of one allocation shared by all pooled arrays of the case (a scratch pool: same .base, disjoint
# memory); "interleaved": consecutive interleaved arrays are the even / odd elements of one parent (overlapping extents, no common
# element)
LAYOUTS = ["contig", "strided_last", "strided_all", "subblock", "transposed", "pooled", "interleaved"]


# ------------------------------------------------------------------------------------------------
# harness
# ------------------------------------------------------------------------------------------------


class H:
    def __init__(self, case, ctx):
        self.case = case
        self.ctx = ctx
        self.dtype = gen.np_dtype(case["dtype"])
        self.eps = float(np.finfo(self.dtype).eps)
        self.shape = tuple(case["shape"])
        self.dim = len(self.shape)
        self.layouts = list(case["layouts"])
        self.specs = list(case["fields"])
        self.sc = [float(v) for v in case["scalars"]]
        self._n = 0
        self._pools = {}
        self.arrays = []  # dicts: name, view, base, snap_base, role, pre
        self.noncontig = False

    def _alloc(self, full_shape, dtype=None):
        """uninitialised array of full_shape with the next drawn layout; returns (view, base)."""
        dtype = dtype or self.dtype
        lay = self.layouts[self._n % len(self.layouts)]
        self._n += 1
        nsp = self.dim
        lead = full_shape[: len(full_shape) - nsp]
        sp = full_shape[len(full_shape) - nsp:]
        if lay == "contig":
            bshape = full_shape
            viewer = lambda b: b  # noqa: E731
        elif lay == "strided_last":
            bshape = (*lead, *sp[:-1], 2 * sp[-1])
            viewer = lambda b: b[..., ::2]  # noqa: E731
        elif lay == "strided_all":
            bshape = (*lead, *[2 * n for n in sp])
            viewer = lambda b: b[(Ellipsis, *[slice(None, None, 2)] * nsp)]  # noqa: E731
        elif lay == "subblock":
            bshape = (*lead, *[n + 3 for n in sp])
            viewer = lambda b: b[(Ellipsis, *[slice(1, n + 1) for n in sp])]  # noqa: E731
        elif lay == "transposed":
            bshape = (*lead, *sp[::-1])
            perm = list(range(len(lead))) + [len(lead) + i for i in range(nsp)][::-1]
            viewer = lambda b: b.transpose(perm)  # noqa: E731
        elif lay in ("pooled", "interleaved"):
            size = int(np.prod(full_shape))
            key = (lay, np.dtype(dtype).str)
            pool = self._pools.get(key)
            if lay == "pooled":
                if pool is None or pool["used"] + size > pool["arr"].size:
                    pool = self._pools[key] = {"arr": np.zeros(8 * size + 64, dtype=dtype), "used": 7}
                view = pool["arr"][pool["used"]: pool["used"] + size].reshape(full_shape)
                pool["used"] += size + 5
            else:
                if pool is None or pool["size"] != size or pool["next"] > 1:
                    pool = self._pools[key] = {"arr": np.zeros(2 * size, dtype=dtype), "size": size, "next": 0}
                view = pool["arr"][pool["next"]::2].reshape(full_shape)
                assert np.shares_memory(view, pool["arr"])
                pool["next"] += 1
            self.noncontig = True
            self._last_viewer = lambda b: b
            return view, view  # the memory "around" belongs to the other arrays of the pool: not checked for these layouts
        else:
            raise ValueError(lay)
        base = np.zeros(bshape, dtype=dtype)
        view = viewer(base)
        if lay != "contig":
            self.noncontig = True
        assert view.shape == tuple(full_shape)
        self._last_viewer = viewer
        return view, base

    def _fill_base(self, base, tag):
        # garbage in the memory around the views, distinct per array
        base.reshape(-1)[...] = (np.arange(base.size) % 977 * 0.5 + 3000.0 + 10 * tag) if not np.iscomplexobj(base) \
            else (np.arange(base.size) % 977 * 0.5 + 3000.0 + 10 * tag) * (1 + 0.5j)

    def _register(self, name, view, base, role):
        rec = {"name": name, "view": view, "base": base, "role": role, "pre": view.copy(), "snap": None,
               "expected": None, "mask": None, "scale": None, "viewer": self._last_viewer}
        self.arrays.append(rec)
        return rec

    def inp(self, name, ncomp=None, spec=None, lo=None, hi=None, complex_=False):
        """input array built from the next field spec."""
        full = self.shape if ncomp is None else (ncomp, *self.shape)
        dt = (np.complex64 if self.dtype == np.float32 else np.complex128) if complex_ else self.dtype
        view, base = self._alloc(full, dt)
        self._fill_base(base, len(self.arrays))
        k = len([a for a in self.arrays if a["role"] != "out"])
        comps = 1 if ncomp is None else ncomp
        cspecs = [self.specs[(k * 3 + c) % len(self.specs)] for c in range(comps * (2 if complex_ else 1))]
        if self.case.get("couple") and len(cspecs) > 1:
            # the vector field as a whole is of one kind (e.g. exactly zero outside one box, like immersed-body forcing)
            cspecs = [dict(sp, kind=cspecs[0]["kind"], box=cspecs[0].get("box")) for sp in cspecs]
        vals = np.stack([gen.build_field(sp, self.shape, np.float64) for sp in cspecs])
        if complex_:
            vals = vals[:comps] + 1j * vals[comps:]
        if lo is not None:
            vals = lo + (hi - lo) * (0.5 + 0.5 * np.tanh(vals.real))
        view[...] = (vals[0] if ncomp is None else vals).astype(dt)
        return self._register(name, view, base, "in")

    def out(self, name, ncomp=None, complex_=False):
        full = self.shape if ncomp is None else (ncomp, *self.shape)
        dt = (np.complex64 if self.dtype == np.float32 else np.complex128) if complex_ else self.dtype
        view, base = self._alloc(full, dt)
        self._fill_base(base, len(self.arrays))
        sent = (np.arange(int(np.prod(full))).reshape(full) * 0.25 + 1000.0)
        view[...] = sent.astype(dt) if not complex_ else (sent * (1 - 2j)).astype(dt)
        return self._register(name, view, base, "out")

    def pair(self, out_name, in_name, ncomp=None):
        """(output record, input record, array to pass as the output).  With case["inplace"] the kernel is used IN PLACE: the
        output argument is a fresh view OBJECT of the input's memory (same pointer, shape, strides - e.g. `velocity[:]`), which
        every element-wise kernel admits (each cell is read at offset 0 only, C15)."""
        if self.case.get("inplace"):
            f = self.inout(in_name, ncomp)
            self.ctx.note(labels=["used_in_place_through_a_view_object"])
            return f, f, f["view"][...]
        o = self.out(out_name, ncomp)
        f = self.inp(in_name, ncomp)
        return o, f, o["view"]

    def inout(self, name, ncomp=None, **kw):
        rec = self.inp(name, ncomp=ncomp, **kw)
        rec["role"] = "inout"
        return rec

    def snapshot(self):
        for a in self.arrays:
            a["pre"] = a["view"].copy()
            a["snap"] = a["base"].copy()

    def expect(self, rec, expected, mask, scale):
        """mask: boolean array (True = documented output region) of the view's shape, or None = whole array."""
        rec["expected"] = np.asarray(expected)
        rec["mask"] = np.ones(rec["view"].shape, dtype=bool) if mask is None else np.broadcast_to(mask, rec["view"].shape)
        rec["scale"] = float(scale)

    def finish(self, what):
        tiny = float(np.finfo(self.dtype).tiny)
        for a in self.arrays:
            v = a["view"]
            if a["role"] == "scratch":
                pass
            elif a["role"] == "in":
                if v.tobytes() != a["pre"].tobytes():
                    bad = np.argwhere(v != a["pre"])
                    raise Violation(f"{what}: input array '{a['name']}' was modified (first at {bad[0].tolist() if len(bad) else '?'})")
            else:
                if a["expected"] is None:
                    raise AssertionError(f"harness: no expectation for {a['name']}")
                m = a["mask"]
                outside = ~m
                if np.any(outside):
                    # bit-identical, except that the sign of a zero is not looked at: "x + 0.0" turns -0.0 into +0.0, which no
                    # reading of "leaves the cell unchanged" can object to (every other value has a unique bit pattern)
                    if v[outside].tobytes() != a["pre"][outside].tobytes() and not np.array_equal(v[outside], a["pre"][outside]):
                        idx = np.argwhere(outside & (v != a["pre"]))
                        raise Violation(f"{what}: output '{a['name']}' changed OUTSIDE its documented region, e.g. at {idx[0].tolist() if len(idx) else '?'} "
                                        f"(shape {list(v.shape)})")
                if np.any(m):
                    got = v[m].astype(np.complex128 if np.iscomplexobj(v) else np.float64)
                    want = a["expected"][m]
                    if not np.all(np.isfinite(got)):
                        raise Violation(f"{what}: output '{a['name']}' has non-finite values in its region")
                    err = np.abs(got - want)
                    tol = 64 * self.eps * a["scale"] + 64 * tiny + 4 * self.eps * np.abs(want)
                    if np.any(err > tol):
                        j = int(np.argmax(err - tol))
                        cell = np.argwhere(m)[j].tolist()
                        raise Violation(f"{what}: output '{a['name']}' at {cell}: got {got[j]!r}, documented value {want[j]!r} "
                                        f"(tol {float(np.max(tol)):.3e}, shape {list(v.shape)}, {self.case['dtype']})")
                    self.ctx.extra["max_err_over_tol"] = max(self.ctx.extra.get("max_err_over_tol", 0.0),
                                                             float(np.max(err / tol)))
            # memory around the view
            b = a["base"]
            if b is not v:
                member = np.zeros(b.shape, dtype=bool)
                a["viewer"](member)[...] = True
                if b[~member].tobytes() != a["snap"][~member].tobytes():
                    raise Violation(f"{what}: memory outside the strided/sub-block view of '{a['name']}' was modified")


def _ring_mask(shape, g):
    m = np.zeros(shape, dtype=bool)
    if all(n > 2 * g for n in shape):
        m[(slice(g, -g),) * len(shape)] = True
    return m


def _zone_mask(shape, w):
    return ~_ring_mask(shape, w)


def _amax(*arrs):
    return max(float(np.max(np.abs(a), initial=0.0)) for a in arrs)


def _f64(rec):
    return rec["pre"].astype(np.complex128 if np.iscomplexobj(rec["pre"]) else np.float64)


# ------------------------------------------------------------------------------------------------
# entries
# ------------------------------------------------------------------------------------------------

ENTRIES = {}


def entry(gen_name, dims=(2, 3), min_n=1, **opts):
    def deco(fn):
        for d in dims:
            g = gen_name.format(d=d)
            key = (g, tuple(sorted(opts.items())))
            ENTRIES[key] = {"gen": g, "opts": opts, "dim": d, "min_n": min_n if not callable(min_n) else min_n(opts), "fn": fn}
        return fn
    return deco


_KCACHE = {}
_KCACHE_STATEFUL = {}


def _stateful_kernel(h, gen_name, opts, needs):
    """Generators whose kernels close over work buffers: one kernel object per (options, shape, dtype, threads) and process,
    re-used by later cases, so that state hidden in the closure (e.g. 'already reset' flags) is exercised."""
    key = (gen_name, tuple(sorted((k, str(v)) for k, v in opts.items())), h.case["dtype"], h.case["threads"], h.shape)
    if key not in _KCACHE_STATEFUL:
        with h.ctx.repo_call(f"{gen_name}({opts})"):
            _KCACHE_STATEFUL[key] = kernels.build(gen_name, opts, needs, h.dtype, h.case["threads"], shape=h.shape)
        h.ctx.note(labels=["closure_kernel_first_use"])
    else:
        h.ctx.note(labels=["closure_kernel_reused"])
    return _KCACHE_STATEFUL[key]


def _kernel(h, gen_name, needs=None, **opts):
    key = (gen_name, tuple(sorted((k, str(v)) for k, v in opts.items())), h.case["dtype"], h.case["threads"],
           h.shape if needs else None, h.case.get("dx") if needs else None)
    if key in _KCACHE:
        return _KCACHE[key]
    with h.ctx.repo_call(f"{gen_name}({opts})"):
        k, aux = kernels.build(gen_name, opts, needs, h.dtype, h.case["threads"], shape=h.shape, dx=h.case.get("dx"))
    if needs is None:
        _KCACHE[key] = (k, aux)
    return k, aux


# ---- element-wise algebra ----------------------------------------------------------------------
for _ft in ("scalar", "vector"):
    @entry("gen_elementwise_sum_pyst_kernel_{d}d", field_type=_ft)
    def _e_sum(h, field_type):
        k, _ = _kernel(h, f"gen_elementwise_sum_pyst_kernel_{h.dim}d", field_type=field_type)
        nc = None if field_type == "scalar" else h.dim
        (o, a, ov), b = h.pair("sum_field", "field_1", nc), h.inp("field_2", nc)
        h.snapshot()
        with h.ctx.repo_call("elementwise_sum"):
            k(sum_field=ov, field_1=a["view"], field_2=b["view"])
        h.expect(o, _f64(a) + _f64(b), None, _amax(a["pre"]) + _amax(b["pre"]))

    @entry("gen_elementwise_saxpby_pyst_kernel_{d}d", field_type=_ft)
    def _e_saxpby(h, field_type):
        k, _ = _kernel(h, f"gen_elementwise_saxpby_pyst_kernel_{h.dim}d", field_type=field_type)
        nc = None if field_type == "scalar" else h.dim
        (o, a, ov), b = h.pair("sum_field", "field_1", nc), h.inp("field_2", nc)
        pa, pb = h.sc[0], h.sc[1]
        h.snapshot()
        with h.ctx.repo_call("elementwise_saxpby"):
            k(sum_field=ov, field_1=a["view"], field_2=b["view"], field_1_prefac=pa, field_2_prefac=pb)
        h.expect(o, pa * _f64(a) + pb * _f64(b), None, abs(pa) * _amax(a["pre"]) + abs(pb) * _amax(b["pre"]))

    @entry("gen_set_fixed_val_pyst_kernel_{d}d", field_type=_ft)
    def _e_set(h, field_type):
        k, _ = _kernel(h, f"gen_set_fixed_val_pyst_kernel_{h.dim}d", field_type=field_type)
        if field_type == "scalar":
            o = h.out("field")
            h.snapshot()
            with h.ctx.repo_call("set_fixed_val"):
                k(field=o["view"], fixed_val=h.sc[0])
            h.expect(o, np.full(h.shape, float(h.dtype(h.sc[0]))), None, abs(h.sc[0]))
        else:
            o = h.out("vector_field", h.dim)
            vals = h.sc[: h.dim]
            h.snapshot()
            with h.ctx.repo_call("set_fixed_val(vector)"):
                k(vector_field=o["view"], fixed_vals=vals)
            exp = np.stack([np.full(h.shape, float(h.dtype(v))) for v in vals])
            h.expect(o, exp, None, max(abs(v) for v in vals))

    @entry("gen_add_fixed_val_pyst_kernel_{d}d", field_type=_ft)
    def _e_add(h, field_type):
        k, _ = _kernel(h, f"gen_add_fixed_val_pyst_kernel_{h.dim}d", field_type=field_type)
        if field_type == "scalar":
            o, a, ov = h.pair("sum_field", "field")
            h.snapshot()
            with h.ctx.repo_call("add_fixed_val"):
                k(sum_field=ov, field=a["view"], fixed_val=h.sc[0])
            h.expect(o, _f64(a) + h.sc[0], None, _amax(a["pre"]) + abs(h.sc[0]))
        else:
            o, a, ov = h.pair("sum_field", "vector_field", h.dim)
            vals = h.sc[: h.dim]
            h.snapshot()
            with h.ctx.repo_call("add_fixed_val(vector)"):
                k(sum_field=ov, vector_field=a["view"], fixed_vals=vals)
            exp = np.stack([_f64(a)[c] + vals[c] for c in range(h.dim)])
            h.expect(o, exp, None, _amax(a["pre"]) + max(abs(v) for v in vals))

    for _w in (1, 2, 3):
        @entry("gen_set_fixed_val_at_boundaries_pyst_kernel_{d}d", min_n=lambda o: o["width"], width=_w, field_type=_ft)
        def _e_setb(h, width, field_type):
            k, _ = kernels.build(f"gen_set_fixed_val_at_boundaries_pyst_kernel_{h.dim}d",
                                 {"width": width, "field_type": field_type}, "nofixed", h.dtype, h.case["threads"])
            zone = _zone_mask(h.shape, width)
            if field_type == "scalar":
                o = h.out("field")
                h.snapshot()
                with h.ctx.repo_call("set_fixed_val_at_boundaries"):
                    k(field=o["view"], fixed_val=h.sc[0])
                h.expect(o, np.full(h.shape, float(h.dtype(h.sc[0]))), zone, abs(h.sc[0]))
            else:
                o = h.out("vector_field", h.dim)
                vals = h.sc[: h.dim]
                h.snapshot()
                with h.ctx.repo_call("set_fixed_val_at_boundaries(vector)"):
                    k(vector_field=o["view"], fixed_vals=vals)
                exp = np.stack([np.full(h.shape, float(h.dtype(v))) for v in vals])
                h.expect(o, exp, zone[None], max(abs(v) for v in vals))


@entry("gen_elementwise_copy_pyst_kernel_{d}d")
def _e_copy(h):
    k, _ = _kernel(h, f"gen_elementwise_copy_pyst_kernel_{h.dim}d")
    o, a = h.out("field"), h.inp("rhs_field")
    h.snapshot()
    with h.ctx.repo_call("elementwise_copy"):
        k(field=o["view"], rhs_field=a["view"])
    h.expect(o, _f64(a), None, 0.0)


@entry("gen_elementwise_complex_product_pyst_kernel_{d}d")
def _e_cprod(h):
    k, _ = _kernel(h, f"gen_elementwise_complex_product_pyst_kernel_{h.dim}d")
    o = h.out("product_field", complex_=True)
    a, b = h.inp("field_1", complex_=True), h.inp("field_2", complex_=True)
    h.snapshot()
    with h.ctx.repo_call("elementwise_complex_product"):
        k(product_field=o["view"], field_1=a["view"], field_2=b["view"])
    h.expect(o, _f64(a) * _f64(b), None, 2 * _amax(a["pre"]) * _amax(b["pre"]))


@entry("gen_elementwise_cross_product_pyst_kernel_{d}d", dims=(3,))
def _e_cross(h):
    k, _ = _kernel(h, "gen_elementwise_cross_product_pyst_kernel_3d")
    o, a, b = h.out("result_field", 3), h.inp("field_1", 3), h.inp("field_2", 3)
    h.snapshot()
    with h.ctx.repo_call("elementwise_cross_product"):
        k(result_field=o["view"], field_1=a["view"], field_2=b["view"])
    h.expect(o, np.cross(_f64(a), _f64(b), axis=0), None, 2 * _amax(a["pre"]) * _amax(b["pre"]))


# ---- Brinkmann / characteristic function -------------------------------------------------------
for _ft in ("scalar", "vector"):
    @entry("gen_brinkmann_penalise_pyst_kernel_{d}d", field_type=_ft)
    def _e_brink(h, field_type):
        k, _ = _kernel(h, f"gen_brinkmann_penalise_pyst_kernel_{h.dim}d", field_type=field_type)
        lam = abs(h.sc[0]) * 10.0
        chi = h.inp("char_field", lo=0.0, hi=1.0)
        if field_type == "scalar":
            (o, f, ov), p = h.pair("penalised_field", "field"), h.inp("penalty_field")
            h.snapshot()
            with h.ctx.repo_call("brinkmann_penalise"):
                k(penalised_field=ov, penalty_factor=lam, char_field=chi["view"], penalty_field=p["view"], field=f["view"])
        else:
            (o, f, ov), p = h.pair("penalised_vector_field", "vector_field", h.dim), h.inp("penalty_vector_field", h.dim)
            h.snapshot()
            with h.ctx.repo_call("brinkmann_penalise(vector)"):
                k(penalised_vector_field=ov, penalty_factor=lam, char_field=chi["view"],
                  penalty_vector_field=p["view"], vector_field=f["view"])
        c = _f64(chi)
        h.expect(o, (_f64(f) + lam * c * _f64(p)) / (1 + lam * c), None, _amax(f["pre"]) + (1 + lam) * _amax(p["pre"]))

    @entry("gen_brinkmann_penalise_vs_fixed_val_pyst_kernel_{d}d", dims=(2,), field_type=_ft)
    def _e_brinkfix(h, field_type):
        k, _ = _kernel(h, "gen_brinkmann_penalise_vs_fixed_val_pyst_kernel_2d", field_type=field_type)
        lam = abs(h.sc[0]) * 10.0
        chi = h.inp("char_field", lo=0.0, hi=1.0)
        c = _f64(chi)
        if field_type == "scalar":
            o, f, ov = h.pair("penalised_field", "field")
            pv = h.sc[1]
            h.snapshot()
            with h.ctx.repo_call("brinkmann_penalise_vs_fixed_val"):
                k(penalised_field=ov, penalty_factor=lam, char_field=chi["view"], penalty_val=pv, field=f["view"])
            h.expect(o, (_f64(f) + lam * c * pv) / (1 + lam * c), None, _amax(f["pre"]) + (1 + lam) * abs(pv))
        else:
            o, f, ov = h.pair("penalised_vector_field", "vector_field", 2)
            pv = h.sc[1:3]
            h.snapshot()
            with h.ctx.repo_call("brinkmann_penalise_vs_fixed_val(vector)"):
                k(penalised_vector_field=ov, penalty_factor=lam, char_field=chi["view"], penalty_val=pv, vector_field=f["view"])
            exp = np.stack([(_f64(f)[i] + lam * c * pv[i]) / (1 + lam * c) for i in range(2)])
            h.expect(o, exp, None, _amax(f["pre"]) + (1 + lam) * max(abs(v) for v in pv))


@entry("gen_char_func_from_level_set_via_sine_heaviside_pyst_kernel_{d}d")
def _e_char(h):
    bw = [0.3, 0.0625, 1.0][int(abs(h.sc[0]) * 1000) % 3]  # embedded in the C source: small palette
    gname = f"gen_char_func_from_level_set_via_sine_heaviside_pyst_kernel_{h.dim}d"
    with h.ctx.repo_call(gname):
        k, _ = kernels.build(gname, {"blend_width": bw}, None, h.dtype, h.case["threads"])
    o, ls = h.out("char_func_field"), h.inp("level_set_field")
    h.snapshot()
    with h.ctx.repo_call("char_func_from_level_set"):
        k(char_func_field=o["view"], level_set_field=ls["view"])
    phi = _f64(ls)
    mid = 0.5 * (1 + phi / bw + np.sin(np.pi * phi / bw) / np.pi)
    exp = np.where(phi > bw, 1.0, 0.0) + np.where(np.abs(phi) > bw, 0.0, mid)
    # cells within rounding distance of +-bw may fall on either side of the branch: both values agree to O(eps)
    h.expect(o, exp, None, 4.0 + _amax(ls["pre"]) / bw)


# ---- differential stencils -----------------------------------------------------------------------
def _lap(f):
    d = f.ndim
    out = -2.0 * d * f
    for a in range(d):
        out = out + np.roll(f, 1, a) + np.roll(f, -1, a)
    return out


for _r in (True, False):
    @entry("gen_diffusion_flux_pyst_kernel_{d}d", dims=(2,), min_n=3, reset_ghost_zone=_r)
    def _e_diff2(h, reset_ghost_zone):
        k, _ = _kernel(h, "gen_diffusion_flux_pyst_kernel_2d", reset_ghost_zone=reset_ghost_zone)
        o, f = h.out("diffusion_flux"), h.inp("field")
        p = h.sc[0]
        h.snapshot()
        with h.ctx.repo_call("diffusion_flux_2d"):
            k(diffusion_flux=o["view"], field=f["view"], prefactor=p)
        inner = _ring_mask(h.shape, 1)
        exp = np.where(inner, p * _lap(_f64(f)), 0.0)
        h.expect(o, exp, None if reset_ghost_zone else inner, abs(p) * 8 * _amax(f["pre"]))

    for _ft in ("scalar", "vector"):
        @entry("gen_diffusion_flux_pyst_kernel_{d}d", dims=(3,), min_n=3, reset_ghost_zone=_r, field_type=_ft)
        def _e_diff3(h, reset_ghost_zone, field_type):
            k, _ = _kernel(h, "gen_diffusion_flux_pyst_kernel_3d", reset_ghost_zone=reset_ghost_zone, field_type=field_type)
            p = h.sc[0]
            inner = _ring_mask(h.shape, 1)
            if field_type == "scalar":
                o, f = h.out("diffusion_flux"), h.inp("field")
                h.snapshot()
                with h.ctx.repo_call("diffusion_flux_3d"):
                    k(diffusion_flux=o["view"], field=f["view"], prefactor=p)
                exp = np.where(inner, p * _lap(_f64(f)), 0.0)
                h.expect(o, exp, None if reset_ghost_zone else inner, abs(p) * 12 * _amax(f["pre"]))
            else:
                o, f = h.out("vector_field_diffusion_flux", 3), h.inp("vector_field", 3)
                h.snapshot()
                with h.ctx.repo_call("diffusion_flux_3d(vector)"):
                    k(vector_field_diffusion_flux=o["view"], vector_field=f["view"], prefactor=p)
                exp = np.stack([np.where(inner, p * _lap(_f64(f)[c]), 0.0) for c in range(3)])
                h.expect(o, exp, None if reset_ghost_zone else inner[None], abs(p) * 12 * _amax(f["pre"]))

    @entry("gen_outplane_field_curl_pyst_kernel_{d}d", dims=(2,), min_n=3, reset_ghost_zone=_r)
    def _e_ocurl(h, reset_ghost_zone):
        k, _ = _kernel(h, "gen_outplane_field_curl_pyst_kernel_2d", reset_ghost_zone=reset_ghost_zone)
        o, f = h.out("curl", 2), h.inp("field")
        p = h.sc[0]
        h.snapshot()
        with h.ctx.repo_call("outplane_field_curl_2d"):
            k(curl=o["view"], field=f["view"], prefactor=p)
        inner = _ring_mask(h.shape, 1)
        F = _f64(f)
        exp = np.stack([np.where(inner, p * fs.cdiff(F, 1, 2), 0.0), np.where(inner, -p * fs.cdiff(F, 0, 2), 0.0)])
        h.expect(o, exp, None if reset_ghost_zone else inner[None], abs(p) * 2 * _amax(f["pre"]))

    @entry("gen_curl_pyst_kernel_{d}d", dims=(3,), min_n=3, reset_ghost_zone=_r)
    def _e_curl3(h, reset_ghost_zone):
        k, _ = _kernel(h, "gen_curl_pyst_kernel_3d", reset_ghost_zone=reset_ghost_zone)
        o, f = h.out("curl", 3), h.inp("field", 3)
        p = h.sc[0]
        h.snapshot()
        with h.ctx.repo_call("curl_3d"):
            k(curl=o["view"], field=f["view"], prefactor=p)
        inner = _ring_mask(h.shape, 1)
        exp = np.where(inner[None], p * fs.curl_numerator(_f64(f), 3), 0.0)
        h.expect(o, exp, None if reset_ghost_zone else inner[None], abs(p) * 4 * _amax(f["pre"]))

    @entry("gen_divergence_pyst_kernel_{d}d", dims=(3,), min_n=3, reset_ghost_zone=_r)
    def _e_div3(h, reset_ghost_zone):
        k, _ = _kernel(h, "gen_divergence_pyst_kernel_3d", reset_ghost_zone=reset_ghost_zone)
        o, f = h.out("divergence"), h.inp("field", 3)
        s = h.sc[0]
        h.snapshot()
        with h.ctx.repo_call("divergence_3d"):
            k(divergence=o["view"], field=f["view"], inv_dx=s)
        inner = _ring_mask(h.shape, 1)
        F = _f64(f)
        num = fs.cdiff(F[0], 0, 3) + fs.cdiff(F[1], 1, 3) + fs.cdiff(F[2], 2, 3)
        h.expect(o, np.where(inner, 0.5 * s * num, 0.0), None if reset_ghost_zone else inner, abs(s) * 3 * _amax(f["pre"]))


@entry("gen_inplane_field_curl_pyst_kernel_{d}d", dims=(2,), min_n=3)
def _e_icurl(h):
    k, _ = _kernel(h, "gen_inplane_field_curl_pyst_kernel_2d")
    o, f = h.out("curl"), h.inp("field", 2)
    p = h.sc[0]
    h.snapshot()
    with h.ctx.repo_call("inplane_field_curl_2d"):
        k(curl=o["view"], field=f["view"], prefactor=p)
    inner = _ring_mask(h.shape, 1)
    h.expect(o, p * fs.curl_numerator(_f64(f), 2), inner, abs(p) * 4 * _amax(f["pre"]))


@entry("gen_update_vorticity_from_velocity_forcing_pyst_kernel_{d}d", min_n=3)
def _e_updf(h):
    k, _ = _kernel(h, f"gen_update_vorticity_from_velocity_forcing_pyst_kernel_{h.dim}d")
    nc = None if h.dim == 2 else 3
    w, f = h.inout("vorticity_field", nc), h.inp("velocity_forcing_field", h.dim)
    p = h.sc[0]
    h.snapshot()
    with h.ctx.repo_call("update_vorticity_from_velocity_forcing"):
        k(vorticity_field=w["view"], velocity_forcing_field=f["view"], prefactor=p)
    inner = _ring_mask(h.shape, 1)
    exp = _f64(w) + p * fs.curl_numerator(_f64(f), h.dim)
    h.expect(w, exp, inner if h.dim == 2 else inner[None], _amax(w["pre"]) + abs(p) * 4 * _amax(f["pre"]))


@entry("gen_update_vorticity_from_penalised_velocity_pyst_kernel_{d}d", min_n=3)
def _e_updp(h):
    k, _ = _kernel(h, f"gen_update_vorticity_from_penalised_velocity_pyst_kernel_{h.dim}d")
    nc = None if h.dim == 2 else 3
    w, g, f = h.inout("vorticity_field", nc), h.inp("penalised_velocity_field", h.dim), h.inp("velocity_field", h.dim)
    p = h.sc[0]
    h.snapshot()
    with h.ctx.repo_call("update_vorticity_from_penalised_velocity"):
        k(vorticity_field=w["view"], penalised_velocity_field=g["view"], velocity_field=f["view"], prefactor=p)
    inner = _ring_mask(h.shape, 1)
    exp = _f64(w) + p * fs.curl_numerator(_f64(g) - _f64(f), h.dim)
    h.expect(w, exp, inner if h.dim == 2 else inner[None], _amax(w["pre"]) + abs(p) * 4 * (_amax(f["pre"]) + _amax(g["pre"])))


def _eno_flux(phi, vel, s):
    dim = phi.ndim
    tot = np.zeros_like(phi)
    for comp in range(dim):
        a = dim - 1 - comp
        g = phi * vel[comp]
        face = fs.eno3_face_values(g, vel[comp], a)
        tot += face - np.roll(face, 1, a)
    return s * tot


@entry("gen_advection_flux_conservative_eno3_pyst_kernel_{d}d", min_n=5)
def _e_advf(h):
    k, _ = _kernel(h, f"gen_advection_flux_conservative_eno3_pyst_kernel_{h.dim}d")
    o, f, u = h.inout("advection_flux"), h.inp("field"), h.inp("velocity", h.dim)
    s = h.sc[0]
    h.snapshot()
    with h.ctx.repo_call("advection_flux"):
        k(advection_flux=o["view"], field=f["view"], velocity=u["view"], inv_dx=s)
    inner = _ring_mask(h.shape, 2)
    h.expect(o, _f64(o) + _eno_flux(_f64(f), _f64(u), s), inner,
             _amax(o["pre"]) + abs(s) * 8 * h.dim * _amax(f["pre"]) * _amax(u["pre"]))


for _ft in ("scalar", "vector"):
    @entry("gen_advection_timestep_euler_forward_conservative_eno3_pyst_kernel_{d}d", dims=(3,), min_n=5, field_type=_ft)
    def _e_advt3(h, field_type):
        k, _ = _kernel(h, "gen_advection_timestep_euler_forward_conservative_eno3_pyst_kernel_3d", field_type=field_type)
        nc = None if field_type == "scalar" else 3
        f, fl, u = h.inout("field", nc), h.out("advection_flux"), h.inp("velocity", 3)
        s = abs(h.sc[0])
        h.snapshot()
        with h.ctx.repo_call("advection_timestep_3d"):
            if field_type == "scalar":
                k(field=f["view"], advection_flux=fl["view"], velocity=u["view"], dt_by_dx=s)
            else:
                k(vector_field=f["view"], advection_flux=fl["view"], velocity=u["view"], dt_by_dx=s)
        inner = _ring_mask(h.shape, 2)
        F, U = _f64(f), _f64(u)
        sc = _amax(f["pre"]) * (1 + s * 24 * _amax(u["pre"]))
        if field_type == "scalar":
            flux = np.where(inner, _eno_flux(F, U, -s), 0.0)
            h.expect(f, F + flux, inner, sc)
        else:
            fluxes = [np.where(inner, _eno_flux(F[c], U, -s), 0.0) for c in range(3)]
            h.expect(f, np.stack([F[c] + fluxes[c] for c in range(3)]), inner[None], sc)
            flux = fluxes[2]
        h.expect(fl, flux, None, sc)


@entry("gen_advection_timestep_euler_forward_conservative_eno3_pyst_kernel_{d}d", dims=(2,), min_n=5)
def _e_advt2(h):
    k, _ = _kernel(h, "gen_advection_timestep_euler_forward_conservative_eno3_pyst_kernel_2d")
    f, fl, u = h.inout("field"), h.out("advection_flux"), h.inp("velocity", 2)
    s = abs(h.sc[0])
    h.snapshot()
    with h.ctx.repo_call("advection_timestep_2d"):
        k(field=f["view"], advection_flux=fl["view"], velocity=u["view"], dt_by_dx=s)
    inner = _ring_mask(h.shape, 2)
    F, U = _f64(f), _f64(u)
    flux = np.where(inner, _eno_flux(F, U, -s), 0.0)
    sc = _amax(f["pre"]) * (1 + s * 16 * _amax(u["pre"]))
    h.expect(f, F + flux, inner, sc)
    h.expect(fl, flux, None, sc)


@entry("gen_diffusion_timestep_euler_forward_pyst_kernel_{d}d", dims=(2,), min_n=3)
def _e_dift2(h):
    k, _ = _kernel(h, "gen_diffusion_timestep_euler_forward_pyst_kernel_2d")
    f, fl = h.inout("field"), h.out("diffusion_flux")
    p = abs(h.sc[0])
    h.snapshot()
    with h.ctx.repo_call("diffusion_timestep_2d"):
        k(field=f["view"], diffusion_flux=fl["view"], nu_dt_by_dx2=p)
    inner = _ring_mask(h.shape, 1)
    F = _f64(f)
    flux = np.where(inner, p * _lap(F), 0.0)
    sc = _amax(f["pre"]) * (1 + 8 * p)
    h.expect(f, F + flux, inner, sc)
    h.expect(fl, flux, None, sc)


for _ft in ("scalar", "vector"):
    @entry("gen_diffusion_timestep_euler_forward_pyst_kernel_{d}d", dims=(3,), min_n=3, field_type=_ft)
    def _e_dift3(h, field_type):
        k, _ = _kernel(h, "gen_diffusion_timestep_euler_forward_pyst_kernel_3d", field_type=field_type)
        nc = None if field_type == "scalar" else 3
        f, fl = h.inout("field", nc), h.out("diffusion_flux")
        p = abs(h.sc[0])
        h.snapshot()
        with h.ctx.repo_call("diffusion_timestep_3d"):
            if field_type == "scalar":
                k(field=f["view"], diffusion_flux=fl["view"], nu_dt_by_dx2=p)
            else:
                k(vector_field=f["view"], diffusion_flux=fl["view"], nu_dt_by_dx2=p)
        inner = _ring_mask(h.shape, 1)
        F = _f64(f)
        sc = _amax(f["pre"]) * (1 + 12 * p)
        if field_type == "scalar":
            flux = np.where(inner, p * _lap(F), 0.0)
            h.expect(f, F + flux, inner, sc)
        else:
            fluxes = [np.where(inner, p * _lap(F[c]), 0.0) for c in range(3)]
            h.expect(f, np.stack([F[c] + fluxes[c] for c in range(3)]), inner[None], sc)
            flux = fluxes[2]
        h.expect(fl, flux, None, sc)


def _stretch(W, U, p, inner):
    out = np.zeros_like(W)
    for c in range(3):
        val = p * (W[0] * fs.cdiff(U[c], 0, 3) + W[1] * fs.cdiff(U[c], 1, 3) + W[2] * fs.cdiff(U[c], 2, 3))
        out[c] = np.where(inner, val, 0.0)
    return out


@entry("gen_vorticity_stretching_flux_pyst_kernel_{d}d", dims=(3,), min_n=3)
def _e_strf(h):
    k, _ = _kernel(h, "gen_vorticity_stretching_flux_pyst_kernel_3d")
    o, w, u = h.out("vorticity_stretching_flux_field", 3), h.inp("vorticity_field", 3), h.inp("velocity_field", 3)
    p = h.sc[0]
    h.snapshot()
    with h.ctx.repo_call("vorticity_stretching_flux"):
        k(vorticity_stretching_flux_field=o["view"], vorticity_field=w["view"], velocity_field=u["view"], prefactor=p)
    inner = _ring_mask(h.shape, 1)
    h.expect(o, _stretch(_f64(w), _f64(u), p, inner), None, abs(p) * 6 * _amax(w["pre"]) * _amax(u["pre"]))


@entry("gen_vorticity_stretching_timestep_euler_forward_pyst_kernel_{d}d", dims=(3,), min_n=3)
def _e_strt(h):
    k, _ = _kernel(h, "gen_vorticity_stretching_timestep_euler_forward_pyst_kernel_3d")
    w, u, fl = h.inout("vorticity_field", 3), h.inp("velocity_field", 3), h.out("vorticity_stretching_flux_field", 3)
    p = h.sc[0] * 0.25
    h.snapshot()
    with h.ctx.repo_call("vorticity_stretching_timestep_euler_forward"):
        k(vorticity_field=w["view"], velocity_field=u["view"], vorticity_stretching_flux_field=fl["view"], dt_by_2_dx=p)
    inner = _ring_mask(h.shape, 1)
    W, U = _f64(w), _f64(u)
    flux = _stretch(W, U, p, inner)
    sc = _amax(w["pre"]) * (1 + abs(p) * 6 * _amax(u["pre"]))
    h.expect(w, W + flux, inner[None], sc)
    h.expect(fl, flux, None, sc)


@entry("gen_vorticity_stretching_timestep_ssprk3_pyst_kernel_{d}d", dims=(3,), min_n=3)
def _e_strk(h):
    k, aux = _stateful_kernel(h, "gen_vorticity_stretching_timestep_ssprk3_pyst_kernel_3d", {}, "ssprk3")
    aux["midstep_buffer_vector_field"][...] = 123.0 * h.sc[1]
    w, u, fl = h.inout("vorticity_field", 3), h.inp("velocity_field", 3), h.out("vorticity_stretching_flux_field", 3)
    p = h.sc[0] * 0.125
    h.snapshot()
    with h.ctx.repo_call("vorticity_stretching_timestep_ssprk3"):
        k(vorticity_field=w["view"], velocity_field=u["view"], vorticity_stretching_flux_field=fl["view"], dt_by_2_dx=p)
    inner = _ring_mask(h.shape, 1)
    W, U = _f64(w), _f64(u)
    A = lambda x: _stretch(x, U, p, inner)  # noqa: E731
    a1 = A(W)
    a2 = A(a1)
    a3 = A(a2)
    exp = W + a1 + a2 / 2 + a3 / 6
    q = abs(p) * 6 * _amax(u["pre"])
    sc = _amax(w["pre"]) * (1 + q + q * q + q**3)
    # the final convex combination (1/3 w + 2/3 w2) touches every cell, so ring cells are reproduced only up to
    # rounding; demanding bit-identity there would over-read the property (see DESIGN, false-alarm notes)
    h.expect(w, exp, None, sc)
    fl["role"] = "scratch"  # caller-supplied work buffer: contents after the call are not documented


# ---- boundary damping -------------------------------------------------------------------------
for _w in (0, 1, 2, 3, 4):
    @entry("gen_penalise_field_boundary_pyst_kernel_{d}d", dims=(2,), min_n=lambda o: max(2, 2 * o["width"]), width=_w)
    def _e_pen2(h, width):
        with h.ctx.repo_call(f"gen_penalise_field_boundary_pyst_kernel_2d(width={width})"):
            k, aux = kernels.build("gen_penalise_field_boundary_pyst_kernel_2d", {"width": width}, "grid2", h.dtype,
                                   h.case["threads"], shape=h.shape, dx=h.case["dx"])
        f = h.inout("field")
        h.snapshot()
        with h.ctx.repo_call(f"penalise_field_boundary_2d(width={width})"):
            k(field=f["view"])
        exp, amp = fs.damp_boundary(_f64(f), width)
        zone = _zone_mask(h.shape, width) if width else np.zeros(h.shape, dtype=bool)
        h.expect(f, exp, zone, _amax(f["pre"]) * (1 + max(h.shape)))

    for _ft in ("scalar", "vector"):
        @entry("gen_penalise_field_boundary_pyst_kernel_{d}d", dims=(3,), min_n=lambda o: max(2, 2 * o["width"]), width=_w, field_type=_ft)
        def _e_pen3(h, width, field_type):
            with h.ctx.repo_call(f"gen_penalise_field_boundary_pyst_kernel_3d(width={width})"):
                k, aux = kernels.build("gen_penalise_field_boundary_pyst_kernel_3d", {"width": width, "field_type": field_type},
                                       "grid3", h.dtype, h.case["threads"], shape=h.shape, dx=h.case["dx"])
            zone = _zone_mask(h.shape, width) if width else np.zeros(h.shape, dtype=bool)
            if field_type == "scalar":
                f = h.inout("field")
                h.snapshot()
                with h.ctx.repo_call(f"penalise_field_boundary_3d(width={width})"):
                    k(field=f["view"])
                h.expect(f, fs.damp_boundary(_f64(f), width)[0], zone, _amax(f["pre"]) * (1 + max(h.shape)))
            else:
                f = h.inout("vector_field", 3)
                h.snapshot()
                with h.ctx.repo_call(f"penalise_field_boundary_3d(vector,width={width})"):
                    k(vector_field=f["view"])
                exp = np.stack([fs.damp_boundary(_f64(f)[c], width)[0] for c in range(3)])
                h.expect(f, exp, zone[None], _amax(f["pre"]) * (1 + max(h.shape)))


# ---- filters --------------------------------------------------------------------------------------
for _o in (1, 2, 3):
    for _ft in ("scalar", "vector"):
        for _t in ("multiplicative", "convolution"):
            @entry("gen_laplacian_filter_kernel_{d}d", dims=(3,), min_n=3, filter_order=_o, field_type=_ft, filter_type=_t)
            def _e_filt(h, filter_order, field_type, filter_type):
                k, aux = _stateful_kernel(h, "gen_laplacian_filter_kernel_3d",
                                          {"filter_order": filter_order, "field_type": field_type, "filter_type": filter_type}, "filter")
                aux["filter_flux_buffer"][...] = h.sc[1] * 100.0  # arbitrary previous buffer contents
                aux["field_buffer"][...] = -h.sc[2] * 50.0
                nc = None if field_type == "scalar" else 3
                f = h.inout("field", nc)
                h.snapshot()
                with h.ctx.repo_call("laplacian_filter_3d"):
                    if field_type == "scalar":
                        k(scalar_field=f["view"])
                    else:
                        k(vector_field=f["view"])
                F = _f64(f)
                if field_type == "scalar":
                    exp = fs.laplacian_filter(F, filter_order, filter_type)
                else:
                    exp = np.stack([fs.laplacian_filter(F[c], filter_order, filter_type) for c in range(3)])
                h.expect(f, exp, None, _amax(f["pre"]) * (2.0 + 2.0 ** filter_order))


def entry_keys():
    return sorted(ENTRIES, key=lambda k: (k[0], str(k[1])))


# ------------------------------------------------------------------------------------------------
# parts
# ------------------------------------------------------------------------------------------------


def _variants(tier):
    return list(range(len(entry_keys())))


def _strategy(tier, ki):
    keys = entry_keys()
    hi = {2: 28 if tier == "thorough" else 14, 3: 12 if tier == "thorough" else 8}

    @st.composite
    def case(draw):
        e = ENTRIES[keys[ki]]
        d = e["dim"]
        lo = e["min_n"]
        shape = draw(st.one_of(st.just([lo] * d), gen.grid_shape(d, lo, max(hi[d], lo + 2), long_axis=70 if d == 2 else 40)))
        threads = draw(st.sampled_from([False, 1, 2, 3]))
        dx = draw(st.sampled_from([0.0625, 0.1, 0.037]))
        if ("laplacian_filter" in e["gen"] or "ssprk3" in e["gen"]) and draw(st.integers(0, 3)) > 0:
            # closure-holding kernels: a small set of shapes so that one kernel object serves several cases
            shape = draw(st.sampled_from([[3, 3, 3], [4, 6, 5], [7, 5, 6], [20, 4, 5], [35, 3, 4]]))
            threads = 2
        if "penalise_field_boundary" in e["gen"] and e["opts"]["width"] > 0 and tier == "quick":
            # grid-dependent constants are embedded in the C source (1.3 s of g++ per kernel): small palette
            w = e["opts"]["width"]
            pal = [[2 * w] * d, [2 * w + 1, 2 * w + 3, 2 * w + 2][:d], [9, 12, 10][:d]]
            shape = draw(st.sampled_from(pal))
            threads, dx = 2, 0.1
        fk = ["constant", "poly", "bumps", "spikes", "checker", "noise", "mixed", "zero", "boxnoise"]
        return {
            "entry": ki,
            "entry_name": f"{keys[ki][0]}{dict(keys[ki][1])}",
            "shape": shape,
            "dtype": draw(gen.precisions),
            "threads": threads,
            # per-array layouts, or (a quarter of the cases) one layout for every array of the call - then all arrays come from
            # one pool / are pairwise interleaved
            "layouts": draw(st.one_of(st.lists(st.sampled_from(LAYOUTS), min_size=4, max_size=4), st.lists(st.sampled_from(LAYOUTS), min_size=4, max_size=4),
                                      st.lists(st.sampled_from(LAYOUTS), min_size=4, max_size=4), st.sampled_from(LAYOUTS).map(lambda q: [q] * 4))),
            "fields": draw(st.lists(gen.field_spec(kinds=fk, max_mag_exp=8), min_size=4, max_size=4)),
            # scalar arguments (fixed values, prefactors, penalties): exact special values are admissible inputs and are where
            # "nothing to do" shortcuts live
            "scalars": draw(st.lists(st.one_of(gen.floats(-2.0, 2.0, 32), gen.floats(-2.0, 2.0, 32),
                                               st.sampled_from([0.0, 0.0, 1.0, -1.0, -0.0])), min_size=4, max_size=4)),
            "dx": dx,
            "couple": draw(st.integers(0, 2)) == 0,
            # element-wise kernels used in place through a fresh view object of the input (entries that support it)
            "inplace": draw(st.integers(0, 2)) == 0,
        }

    return case()


def _body(case, ctx):
    keys = entry_keys()
    key = keys[case["entry"]]
    e = ENTRIES[key]
    h = H(case, ctx)
    e["fn"](h, **e["opts"])
    what = f"{key[0]}{dict(key[1])}"
    h.finish(what)
    minimal = all(n == e["min_n"] for n in h.shape)
    ctx.note(nontrivial=h.noncontig or len(set(h.shape)) > 1 or minimal,
             labels=[key[0], "noncontig" if h.noncontig else "contig", "minimal_shape" if minimal else "larger_shape",
                     case["dtype"], f"threads_{case['threads']}"] + (["scalar_argument_exactly_zero"] if any(v == 0.0 for v in case["scalars"][:3]) else []))


# ------------------------------------------------------------------------------------------------
# generation order in a fresh process (process-wide state of the generators: module-level caches, memoised stencils, ...)
# ------------------------------------------------------------------------------------------------

_GROUP_TOKENS = ["diffusion", "advection", "stretching", "curl", "divergence", "fixed_val", "elementwise", "penalise_field_boundary",
                 "brinkmann", "filter", "update_vorticity"]


def _groups():
    keys = entry_keys()
    groups = {}
    for ki, k in enumerate(keys):
        tok = next((t for t in _GROUP_TOKENS if t in k[0]), None)
        if tok is None:
            continue
        groups.setdefault(f"{tok}_{ENTRIES[k]['dim']}d", []).append(ki)
    # time-step kernels build on the flux kernels of the same operator, boundary setters are used by every reset_ghost_zone
    # wrapper: the groups are "generators that may share process-wide state"
    return {g: v for g, v in sorted(groups.items()) if len(v) >= 2}


def _order_variants(tier):
    return list(_groups())


def _order_strategy(tier, group):
    members = _groups()[group]

    @st.composite
    def case(draw):
        k = draw(st.integers(2, min(5, len(members))))
        order = draw(st.permutations(members))[:k]
        dtype = draw(gen.precisions)
        threads = 2 if "penalise" in group else draw(st.sampled_from([False, 1, 2]))
        subs = []
        for ki in order:
            c = draw(_strategy("quick", ki))
            c["dtype"], c["threads"] = dtype, threads
            subs.append(c)
        return {"group": group, "order": list(order), "sub_cases": subs}

    return case()


def _order_body(case, ctx):
    from ..freshproc import run_in_fresh_process

    res = run_in_fresh_process("sophtverif.props.c13", "kernel_formula_and_region", case["sub_cases"])
    if res.get("error"):
        raise RuntimeError("fresh-process driver failed: " + res["error"])
    names = [c["entry_name"] for c in case["sub_cases"]]
    if res["violation"] is not None:
        v = res["violation"]
        raise Violation(f"kernels generated in a fresh process in the order {names}: entry #{v['index']} ({names[v['index']]}) fails: {v['message']}")
    ctx.note(nontrivial=len(set(names)) >= 2, labels=[case["group"], f"order_length_{len(names)}"])


def _inventory_cases(tier):
    return [{"inventory": True}]


def _inventory(case, ctx):
    names = set(kernels.public_generator_names())
    have = {k[0] for k in ENTRIES}
    missing = sorted(names - have)
    if missing:
        raise Violation(f"public kernel generators without a documented-formula entry: {missing}")
    ctx.extra["generators"] = len(names)
    ctx.extra["entries"] = len(ENTRIES)
    ctx.note(nontrivial=True, labels=[f"generators_{len(names)}", f"entries_{len(ENTRIES)}"])


PARTS = [
    Part(name="kernel_formula_and_region", strategy=_strategy, body=_body,
         examples={"quick": 1500, "thorough": 40000}, shards={"quick": 14, "thorough": 16}, variants=_variants,
         min_examples_per_variant=12),
    Part(name="generation_order_fresh_process", strategy=_order_strategy, body=_order_body, variants=_order_variants,
         examples={"quick": 60, "thorough": 1200}, shards={"quick": 14, "thorough": 16}, min_examples_per_variant=3, weight=1.0),
    Part(name="registry_complete", strategy=None, body=_inventory, examples={"quick": 1, "thorough": 1},
         exhaustive=_inventory_cases),
]
