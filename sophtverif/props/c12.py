"""C12 - discrete vector-calculus identities hold exactly."""

from __future__ import annotations

from fractions import Fraction

import numpy as np
from hypothesis import strategies as st

from .. import capture, gen, kernels
from ..interp import ExactGrid
from ..runner import Part, Violation

PROPERTY_ID = "C12"
LEVEL = "exploration"
RULE = (
    "Part exact_identities: the captured stencils are composed by an exact rational interpreter on a 5^3 "
    "(3-D) or 5^2 (2-D) block whose every cell holds a Hypothesis-drawn rational (independent per field), "
    "with drawn rational prefactors; identities checked with equality of rationals at the centre cell: "
    "div(curl F)=0; div(omega) unchanged by the forcing update; 2-D: div(curl_outplane psi)=0 and "
    "curl_inplane(curl_outplane psi) = -p1*p2*(wide 5-point Laplacian); forcing update == omega + p*library "
    "curl (2-D and each 3-D component); penalised-velocity update == forcing update of (penalised - velocity). "
    "Non-trivial: all block values distinct from zero for the fields the identity involves and prefactors "
    "non-zero (guaranteed by construction, counted). Part compiled_divergence: 3-D simulator (zone width 0, "
    "no filter, forcing on) with vorticity = discrete curl of a compact random potential, compact forcing, "
    "generic velocity; after one public time_step get_vorticity_divergence_l2_norm() must stay at rounding "
    "level. Part compiled_velocity_divergence: after a public time_step of the 2-D and 3-D simulators (all options) the "
    "recovered velocity has zero centred divergence at every cell >= 2 from the boundary, up to the rounding of the stream-function "
    "differences. Distinct = digest of the drawn case."
)
ASSUMPTIONS = [
    "exact part is a randomized polynomial-identity test over rationals (multilinear identities, degree <= 2)",
    "compiled part: vorticity/forcing vanish within 3 cells of the boundary, as the property requires",
]
BUDGET_S = {"quick": 150.0, "thorough": 1800.0}

IDENTITIES = ["div_curl_3d", "div_forcing_update_3d", "div_free_velocity_2d", "curl_curl_2d",
              "forcing_is_curl_2d", "forcing_is_curl_3d", "penalised_is_forcing_2d", "penalised_is_forcing_3d"]

_BUILT = {}


def _ensure():
    if "done" not in _BUILT:
        kernels.build_all(np.float64, False)
        _BUILT["done"] = True


def _q():
    return st.tuples(st.sampled_from([-1, 1]), st.integers(1, 60), st.integers(1, 16)).map(lambda t: [t[0] * t[1], t[2]])


def _ident_variants(tier):
    return list(IDENTITIES)


def _strategy(tier, ident):
    @st.composite
    def case(draw):
        dim = 2 if ident.endswith("2d") else 3
        n = 5**dim
        nfields = {"div_curl_3d": 3, "div_forcing_update_3d": 6, "div_free_velocity_2d": 1, "curl_curl_2d": 1,
                   "forcing_is_curl_2d": 3, "forcing_is_curl_3d": 6, "penalised_is_forcing_2d": 5,
                   "penalised_is_forcing_3d": 9}[ident]
        return {
            "identity": ident,
            "values": draw(st.lists(gen.block_keys, min_size=nfields, max_size=nfields)),
            "centre": draw(st.lists(_q(), min_size=nfields, max_size=nfields)),
            "p": draw(st.lists(_q(), min_size=2, max_size=2)),
        }

    return case()


def _grid(dim, names, values, centre=None):
    """5^d block per field: pseudo-random rationals from a drawn key, centre cell drawn explicitly."""
    g = ExactGrid((5,) * dim)
    for i, (nm, key) in enumerate(zip(names, values)):
        arr = gen.rational_block(key, (5,) * dim, max_num=60, max_den=16)
        if centre is not None:
            arr[(2,) * dim] = gen.to_fraction(centre[i])
        g.set(nm, arr)
    return g


def _rec(name):
    if name not in capture.STENCILS:
        raise Violation(f"stencil {name} is not produced by the library")
    return capture.stencil(name)


def _div3(g, names, cell):
    """independent centred divergence numerator (no prefactor) at a cell: x is the last axis."""
    fx, fy, fz = (g.fields[n] for n in names)
    k, j, i = cell
    return (fx[k, j, i + 1] - fx[k, j, i - 1] + fy[k, j + 1, i] - fy[k, j - 1, i]
            + fz[k + 1, j, i] - fz[k - 1, j, i])


def _apply_curl3(g, src, dst, p):
    """dst_c = p * curl(src)_c on the 3^3 interior via the library's three curl stencils."""
    sx, sy, sz = src
    for c, (cn, binding) in enumerate((
        ("x", {"curl_x": dst[0], "field_y": sy, "field_z": sz}),
        ("y", {"curl_y": dst[1], "field_x": sx, "field_z": sz}),
        ("z", {"curl_z": dst[2], "field_x": sx, "field_y": sy}),
    )):
        g.apply(_rec(f"_curl_{cn}_comp_stencil_3d"), binding, {"prefactor": p})


def _apply_forcing3(g, w, f, p):
    wx, wy, wz = w
    fx, fy, fz = f
    g.apply(_rec("_update_vorticity_from_velocity_forcing_x_comp_stencil_3d"),
            {"vorticity_field_x": wx, "velocity_forcing_field_y": fy, "velocity_forcing_field_z": fz}, {"prefactor": p})
    g.apply(_rec("_update_vorticity_from_velocity_forcing_y_comp_stencil_3d"),
            {"vorticity_field_y": wy, "velocity_forcing_field_x": fx, "velocity_forcing_field_z": fz}, {"prefactor": p})
    g.apply(_rec("_update_vorticity_from_velocity_forcing_z_comp_stencil_3d"),
            {"vorticity_field_z": wz, "velocity_forcing_field_x": fx, "velocity_forcing_field_y": fy}, {"prefactor": p})


def _body_exact(case, ctx):
    _ensure()
    ident = case["identity"]
    p1, p2 = (gen.to_fraction(v) for v in case["p"])
    vals = case["values"]
    cen = case["centre"]
    c3, c2 = (2, 2, 2), (2, 2)
    if ident == "div_curl_3d":
        g = _grid(3, ["Fx", "Fy", "Fz"], vals, cen)
        for n in ("Cx", "Cy", "Cz"):
            g.zeros(n)
        _apply_curl3(g, ("Fx", "Fy", "Fz"), ("Cx", "Cy", "Cz"), p1)
        g.zeros("D")
        g.apply(_rec("_divergence_stencil_3d"), {"divergence": "D", "field_x": "Cx", "field_y": "Cy", "field_z": "Cz"},
                {"inv_dx": p2}, cells=[c3])
        if g.fields["D"][c3] != 0:
            raise Violation(f"div(curl F) = {g.fields['D'][c3]} != 0 at the centre of a 5^3 block (prefactors {p1}, {p2})")
        if _div3(g, ("Cx", "Cy", "Cz"), c3) != 0:
            raise Violation("independent centred divergence of the library curl is non-zero")
    elif ident == "div_forcing_update_3d":
        g = _grid(3, ["Wx", "Wy", "Wz", "Fx", "Fy", "Fz"], vals, cen)
        before = _div3(g, ("Wx", "Wy", "Wz"), c3)
        g.zeros("D0")
        g.apply(_rec("_divergence_stencil_3d"), {"divergence": "D0", "field_x": "Wx", "field_y": "Wy", "field_z": "Wz"},
                {"inv_dx": p2}, cells=[c3])
        _apply_forcing3(g, ("Wx", "Wy", "Wz"), ("Fx", "Fy", "Fz"), p1)
        after = _div3(g, ("Wx", "Wy", "Wz"), c3)
        g.zeros("D1")
        g.apply(_rec("_divergence_stencil_3d"), {"divergence": "D1", "field_x": "Wx", "field_y": "Wy", "field_z": "Wz"},
                {"inv_dx": p2}, cells=[c3])
        if before != after or g.fields["D0"][c3] != g.fields["D1"][c3]:
            raise Violation(f"curl-type vorticity update changed div(omega): {before} -> {after} (prefactor {p1})")
    elif ident in ("div_free_velocity_2d", "curl_curl_2d"):
        g = _grid(2, ["psi"], vals, cen)
        g.zeros("ux")
        g.zeros("uy")
        g.apply(_rec("_outplane_field_curl_x_stencil_2d"), {"curl_x": "ux", "field": "psi"}, {"prefactor": p1})
        g.apply(_rec("_outplane_field_curl_y_stencil_2d"), {"curl_y": "uy", "field": "psi"}, {"prefactor": p1})
        ux, uy, psi = g.fields["ux"], g.fields["uy"], g.fields["psi"]
        j, i = c2
        if ident == "div_free_velocity_2d":
            div = ux[j, i + 1] - ux[j, i - 1] + uy[j + 1, i] - uy[j - 1, i]
            if div != 0:
                raise Violation(f"velocity = curl(psi) has centred divergence {div} != 0")
        else:
            g.zeros("w")
            g.apply(_rec("_inplane_field_curl_stencil_2d"), {"curl": "w", "field_x": "ux", "field_y": "uy"},
                    {"prefactor": p2}, cells=[c2])
            wide = psi[j, i + 2] + psi[j, i - 2] + psi[j + 2, i] + psi[j - 2, i] - 4 * psi[j, i]
            if g.fields["w"][c2] != -p1 * p2 * wide:
                raise Violation(f"curl_inplane(curl_outplane psi) = {g.fields['w'][c2]} != -p1*p2*wide Laplacian = {-p1 * p2 * wide}")
    elif ident == "forcing_is_curl_2d":
        g = _grid(2, ["w", "Fx", "Fy"], vals, cen)
        w0 = g.fields["w"][c2]
        g.zeros("c")
        g.apply(_rec("_inplane_field_curl_stencil_2d"), {"curl": "c", "field_x": "Fx", "field_y": "Fy"},
                {"prefactor": Fraction(1)}, cells=[c2])
        g.apply(_rec("_update_vorticity_from_velocity_forcing_stencil_2d"),
                {"vorticity_field": "w", "velocity_forcing_field_x": "Fx", "velocity_forcing_field_y": "Fy"},
                {"prefactor": p1}, cells=[c2])
        if g.fields["w"][c2] != w0 + p1 * g.fields["c"][c2]:
            raise Violation("2-D vorticity update from forcing != omega + prefactor * library curl")
    elif ident == "forcing_is_curl_3d":
        g = _grid(3, ["Wx", "Wy", "Wz", "Fx", "Fy", "Fz"], vals, cen)
        w0 = [g.fields[n][c3] for n in ("Wx", "Wy", "Wz")]
        for n in ("Cx", "Cy", "Cz"):
            g.zeros(n)
        _apply_curl3(g, ("Fx", "Fy", "Fz"), ("Cx", "Cy", "Cz"), Fraction(1))
        _apply_forcing3(g, ("Wx", "Wy", "Wz"), ("Fx", "Fy", "Fz"), p1)
        for c, (wn, cn) in enumerate((("Wx", "Cx"), ("Wy", "Cy"), ("Wz", "Cz"))):
            if g.fields[wn][c3] != w0[c] + p1 * g.fields[cn][c3]:
                raise Violation(f"3-D vorticity update from forcing, component {c}, != omega + prefactor * library curl")
    elif ident == "penalised_is_forcing_2d":
        g = _grid(2, ["w", "Fx", "Fy", "Gx", "Gy"], vals, cen)
        g.set("w2", g.fields["w"].copy())
        g.set("Dx", g.fields["Gx"] - g.fields["Fx"])
        g.set("Dy", g.fields["Gy"] - g.fields["Fy"])
        g.apply(_rec("_update_vorticity_from_penalised_velocity_stencil_2d"),
                {"vorticity_field": "w", "penalised_velocity_field_x": "Gx", "penalised_velocity_field_y": "Gy",
                 "velocity_field_x": "Fx", "velocity_field_y": "Fy"}, {"prefactor": p1}, cells=[c2])
        g.apply(_rec("_update_vorticity_from_velocity_forcing_stencil_2d"),
                {"vorticity_field": "w2", "velocity_forcing_field_x": "Dx", "velocity_forcing_field_y": "Dy"},
                {"prefactor": p1}, cells=[c2])
        if g.fields["w"][c2] != g.fields["w2"][c2]:
            raise Violation("2-D penalised-velocity update != forcing update applied to (penalised - velocity)")
    elif ident == "penalised_is_forcing_3d":
        g = _grid(3, ["Wx", "Wy", "Wz", "Fx", "Fy", "Fz", "Gx", "Gy", "Gz"], vals, cen)
        for a in "xyz":
            g.set(f"V{a}", g.fields[f"W{a}"].copy())
            g.set(f"D{a}", g.fields[f"G{a}"] - g.fields[f"F{a}"])
        for cn in "xyz":
            o = [a for a in "xyz" if a != cn]
            binding = {f"vorticity_field_{cn}": f"W{cn}"}
            for a in o:
                binding[f"velocity_field_{a}"] = f"F{a}"
                binding[f"penalised_velocity_field_{a}"] = f"G{a}"
            g.apply(_rec(f"_update_vorticity_from_penalised_velocity_{cn}_comp_stencil_3d"), binding,
                    {"prefactor": p1}, cells=[c3])
        _apply_forcing3(g, ("Vx", "Vy", "Vz"), ("Dx", "Dy", "Dz"), p1)
        for a in "xyz":
            if g.fields[f"W{a}"][c3] != g.fields[f"V{a}"][c3]:
                raise Violation(f"3-D penalised-velocity update, component {a}, != forcing update of (penalised - velocity)")
    else:
        raise ValueError(ident)
    ctx.note(nontrivial=True, labels=[ident])


# ------------------------------------------------------------------------------------------------


def _compiled_strategy(tier):
    hi = 14 if tier == "thorough" else 11

    @st.composite
    def case(draw):
        return {
            "shape": draw(gen.grid_shape(3, 10, hi)),
            "dtype": draw(gen.precisions),
            "x_range": draw(gen.nice_or_log(0.1, 10.0)),
            "nu": draw(gen.log_uniform(1e-4, 1e-1)),
            "dt_frac": draw(gen.floats(0.05, 1.0, 32)),
            "rho": draw(gen.nice_or_log(0.1, 10.0)),
            "potential": draw(gen.vector_field_spec(3, kinds=["bumps", "noise", "mixed", "poly"], max_mag_exp=3)),
            "forcing": draw(gen.vector_field_spec(3, kinds=["zero", "bumps", "noise", "mixed"], max_mag_exp=3)),
            "velocity": draw(gen.vector_field_spec(3, kinds=["constant", "poly", "noise", "mixed"], max_mag_exp=1)),
            "mode": draw(st.sampled_from(["full_step", "forcing_only"])),
            "threads": draw(st.sampled_from([1, 2])),
        }

    return case()


def _np_curl(A):
    """independent centred curl numerator (x last axis), zero ring."""
    ax, ay, az = A
    out = np.zeros_like(A)
    c = (slice(1, -1),) * 3

    def d(f, axis):
        sl_p = [slice(1, -1)] * 3
        sl_m = [slice(1, -1)] * 3
        sl_p[axis] = slice(2, None)
        sl_m[axis] = slice(0, -2)
        return f[tuple(sl_p)] - f[tuple(sl_m)]

    # array axes: 0 = z, 1 = y, 2 = x
    out[0][c] = d(az, 1) - d(ay, 0)
    out[1][c] = d(ax, 0) - d(az, 2)
    out[2][c] = d(ay, 2) - d(ax, 1)
    return out


def _body_compiled(case, ctx):
    import sopht.simulator as sps

    shape = tuple(case["shape"])
    real_t = gen.np_dtype(case["dtype"])
    with ctx.repo_call("constructing UnboundedNavierStokesFlowSimulator3D"):
        sim = sps.UnboundedNavierStokesFlowSimulator3D(
            grid_size=shape, x_range=case["x_range"], kinematic_viscosity=case["nu"], real_t=real_t,
            num_threads=case["threads"], with_forcing=True, flow_density=case["rho"], penalty_zone_width=0)
    dx = float(sim.dx)
    A = gen.build_vector_field(case["potential"], shape, np.float64, margin=4)
    w = _np_curl(A)  # supported >= 3 cells from the boundary, discretely divergence-free
    sim.vorticity_field[...] = w.astype(real_t)
    sim.eul_grid_forcing_field[...] = gen.build_vector_field(case["forcing"], shape, real_t, margin=4)
    sim.velocity_field[...] = gen.build_vector_field(case["velocity"], shape, real_t)
    eps = float(np.finfo(real_t).eps)
    with ctx.repo_call("get_vorticity_divergence_l2_norm"):
        d0 = float(sim.get_vorticity_divergence_l2_norm())
    umax = float(np.max(np.sum(np.abs(sim.velocity_field), axis=0))) + 1e-30
    dt = float(case["dt_frac"]) * min(dx / umax, dx * dx / (6 * case["nu"]))
    if case["mode"] == "forcing_only":
        sim.velocity_field[...] = 0
    with ctx.repo_call("time_step"):
        sim.time_step(dt=dt)
    with ctx.repo_call("get_vorticity_divergence_l2_norm"):
        d1 = float(sim.get_vorticity_divergence_l2_norm())
    wmax = float(np.max(np.abs(sim.vorticity_field))) + float(np.max(np.abs(w)))
    ncell = float(np.prod(shape))
    tol = 64 * eps * (wmax / dx) * np.sqrt(ncell) * dx**1.5
    ctx.extra["max_div_over_tol"] = max(ctx.extra.get("max_div_over_tol", 0.0), d1 / tol if tol > 0 else 0.0)
    if not np.isfinite(d1) or d1 > tol or d0 > tol:
        raise Violation(f"vorticity divergence L2 norm {d0:.3e} -> {d1:.3e} after {case['mode']} exceeds rounding level {tol:.3e} "
                        f"(shape {list(shape)}, {case['dtype']})")
    changed = float(np.max(np.abs(sim.vorticity_field.astype(np.float64) - w))) > 1e-3 * float(np.max(np.abs(w)) + 1e-300)
    ctx.note(nontrivial=changed and float(np.max(np.abs(w))) > 0, labels=[case["mode"], case["dtype"]])


def _veldiv_variants(tier):
    return ["ns2d", "ns3d"]


def _veldiv_strategy(tier, kind):
    from .. import simcfg

    @st.composite
    def case(draw):
        cfg = draw(simcfg.ns_config(tier, kinds=[kind], widths=(0, 0, 2), n_min_fn=lambda c: 9, n_max={2: 28, 3: 12}))
        dim = simcfg.sim_dim(kind)
        return {"cfg": cfg, "vorticity": draw(gen.vector_field_spec(3, kinds=["bumps", "noise", "mixed", "poly", "spikes"], max_mag_exp=4)),
                "velocity": draw(gen.vector_field_spec(dim, kinds=["noise", "mixed", "poly", "zero"], max_mag_exp=2)),
                "free_stream": draw(st.lists(gen.floats(-2.0, 2.0, 32), min_size=dim, max_size=dim)),
                "dt_frac": draw(gen.floats(0.05, 1.0, 32))}

    return case()


def _veldiv_body(case, ctx):
    """velocity recovered by the public simulators is discretely divergence-free away from the zeroed boundary ring."""
    from .. import simcfg

    cfg = case["cfg"]
    dim = simcfg.sim_dim(cfg["sim"])
    real_t = gen.np_dtype(cfg["dtype"])
    eps = float(np.finfo(real_t).eps)
    shape = tuple(cfg["shape"])
    with ctx.repo_call(f"constructing {cfg['sim']}"):
        sim = simcfg.build_sim(cfg)
    w = gen.build_vector_field(case["vorticity"], shape, real_t)
    sim.vorticity_field[...] = w[0] if dim == 2 else w
    sim.velocity_field[...] = gen.build_vector_field(case["velocity"], shape, real_t)
    dx = float(sim.dx)
    umax = float(np.max(np.sum(np.abs(sim.velocity_field.astype(np.float64)), axis=0)))
    dt = simcfg.stable_dt(cfg, dx, umax, case["dt_frac"])
    with ctx.repo_call("time_step"):
        sim.time_step(dt=dt, free_stream_velocity=np.array(case["free_stream"]))
    u = sim.velocity_field.astype(np.float64)
    div = np.zeros(shape)
    mag = np.zeros(shape)
    for c in range(dim):
        a = dim - 1 - c
        div += np.roll(u[c], -1, a) - np.roll(u[c], 1, a)
        mag += np.abs(np.roll(u[c], -1, a)) + np.abs(np.roll(u[c], 1, a))
    inner = (slice(2, -2),) * dim  # stencils of the cells at depth >= 2 do not touch the zeroed ring
    # u = curl(psi)/(2dx): each velocity value carries the rounding of psi differences, ~ eps * max|psi| / dx
    psi = sim.stream_func_field.astype(np.float64)
    tol = 64 * eps * (mag[inner] + float(np.max(np.abs(psi))) / dx) + 64 * float(np.finfo(real_t).tiny)
    err = np.abs(div[inner])
    if err.size and (np.any(err > tol) or not np.all(np.isfinite(u))):
        i = np.unravel_index(int(np.argmax(err - tol)), err.shape)
        raise Violation(f"{cfg['sim']}: recovered velocity has centred divergence {div[inner][i]:.3e} (x 1/2dx) at interior cell "
                        f"{tuple(int(q) + 2 for q in i)}, rounding level is {tol[i]:.3e} (cfg {cfg})")
    ctx.note(nontrivial=bool(np.any(w)) and len(set(shape)) > 1, labels=simcfg.config_labels(cfg))


# ------------------------------------------------------------------------------------------------
# the identities on the COMPILED public kernels, integer-valued data (exact in floating point), arbitrary memory layouts
# ------------------------------------------------------------------------------------------------

LAYOUTS12 = ["contig", "contig", "strided_last", "component_last", "subblock", "fortran"]
_CK = {}


def _lay(a, layout, nsp):
    """same values, different memory layout (all admissible numpy views)."""
    lead = a.ndim - nsp
    if layout == "contig":
        return np.ascontiguousarray(a).copy()
    if layout == "strided_last":
        base = np.full(a.shape[:-1] + (2 * a.shape[-1],), 77.0, dtype=a.dtype)
        base[..., ::2] = a
        return base[..., ::2]
    if layout == "component_last" and lead == 1:
        base = np.ascontiguousarray(np.moveaxis(a, 0, -1)).copy()
        return np.moveaxis(base, -1, 0)
    if layout == "subblock":
        pad = [(0, 0)] * lead + [(1, 2)] * nsp
        base = np.pad(a, pad, constant_values=77.0)
        return base[(slice(None),) * lead + tuple(slice(1, 1 + n) for n in a.shape[lead:])]
    if layout == "fortran":
        return np.asfortranarray(a)
    return np.ascontiguousarray(a).copy()


def _ck(name, real_t, threads, **opts):
    import sopht.numeric.eulerian_grid_ops as spne

    key = (name, np.dtype(real_t).name, threads, tuple(sorted(opts.items())))
    if key not in _CK:
        _CK[key] = getattr(spne, name)(real_t=real_t, num_threads=threads, **opts)
    return _CK[key]


def _cid_variants(tier):
    return ["div_curl_3d", "forcing_update_3d", "penalised_update_3d", "curl_curl_2d", "forcing_update_2d", "penalised_update_2d"]


def _cid_strategy(tier, ident):
    dim = 2 if ident.endswith("2d") else 3

    @st.composite
    def case(draw):
        return {"ident": ident, "shape": draw(gen.grid_shape(dim, 5, 14 if dim == 2 else 9, long_axis=70 if dim == 2 else 40)), "dtype": draw(gen.precisions),
                "threads": draw(st.sampled_from([False, 1, 2])), "keys": draw(st.lists(gen.block_keys, min_size=3, max_size=3)),
                "layouts": draw(st.lists(st.sampled_from(LAYOUTS12), min_size=4, max_size=4)),
                "pre_exp": draw(st.integers(-3, 2)), "reset": draw(st.booleans()),
                # how the two velocity arguments of the penalised update relate in memory
                "pair": draw(st.sampled_from(["separate", "interleaved", "one_allocation"]))}

    return case()


def _ints(key, shape, real_t, lo=-8, hi=8):
    rng = np.random.Generator(np.random.Philox(key=int(key)))
    return rng.integers(lo, hi + 1, size=shape).astype(real_t)


def _cid_body(case, ctx):
    ident = case["ident"]
    shape = tuple(case["shape"])
    dim = len(shape)
    real_t = gen.np_dtype(case["dtype"])
    thr = case["threads"]
    L = case["layouts"]
    pre = real_t(2.0 ** case["pre_exp"])  # power of two: every product and sum below is exact in float32/float64
    inner2 = (slice(2, -2),) * dim
    inner1 = (slice(1, -1),) * dim

    def bad(msg, got, want, sl):
        d = np.abs(got[sl].astype(np.float64) - want[sl].astype(np.float64))
        i = np.unravel_index(int(np.argmax(d)), d.shape)
        raise Violation(f"{ident} (compiled kernels, layouts {L}, shape {list(shape)}, {case['dtype']}, threads {thr}): {msg}: "
                        f"got {got[sl][i]!r}, identity demands {want[sl][i]!r} at interior index {tuple(int(q) for q in i)}")

    with ctx.repo_call(f"compiled identity {ident}"):
        if ident == "div_curl_3d":
            F = _lay(_ints(case["keys"][0], (3, *shape), real_t), L[0], 3)
            C = _lay(np.zeros((3, *shape), dtype=real_t), L[1], 3)
            D = _lay(np.full(shape, 5.0, dtype=real_t), L[2], 3)
            _ck("gen_curl_pyst_kernel_3d", real_t, thr, reset_ghost_zone=case["reset"])(curl=C, field=F, prefactor=pre)
            _ck("gen_divergence_pyst_kernel_3d", real_t, thr, reset_ghost_zone=case["reset"])(divergence=D, field=C, inv_dx=real_t(2.0))
            if np.any(D[inner2] != 0):
                bad("discrete divergence of the library curl is not zero", D, np.zeros(shape), inner2)
        elif ident in ("forcing_update_3d", "forcing_update_2d"):
            nc = 3 if dim == 3 else 2
            F = _lay(_ints(case["keys"][0], (nc, *shape), real_t), L[0], dim)
            w0 = _ints(case["keys"][1], (3, *shape) if dim == 3 else shape, real_t)
            W = _lay(w0.copy(), L[1], dim)
            if dim == 3:
                C = _lay(np.zeros((3, *shape), dtype=real_t), L[2], 3)
                _ck("gen_curl_pyst_kernel_3d", real_t, thr, reset_ghost_zone=False)(curl=C, field=F, prefactor=real_t(1.0))
                _ck("gen_update_vorticity_from_velocity_forcing_pyst_kernel_3d", real_t, thr)(
                    vorticity_field=W, velocity_forcing_field=F, prefactor=pre)
                want = w0.astype(np.float64) + float(pre) * C.astype(np.float64)
                if np.any(W[(slice(None),) + inner1].astype(np.float64) != want[(slice(None),) + inner1]):
                    bad("forcing update != vorticity + prefactor * library curl", W, want, (slice(None),) + inner1)
            else:
                C = _lay(np.zeros(shape, dtype=real_t), L[2], 2)
                _ck("gen_inplane_field_curl_pyst_kernel_2d", real_t, thr)(curl=C, field=F, prefactor=real_t(1.0))
                _ck("gen_update_vorticity_from_velocity_forcing_pyst_kernel_2d", real_t, thr)(
                    vorticity_field=W, velocity_forcing_field=F, prefactor=pre)
                want = w0.astype(np.float64) + float(pre) * C.astype(np.float64)
                if np.any(W[inner1].astype(np.float64) != want[inner1]):
                    bad("forcing update != vorticity + prefactor * library in-plane curl", W, want, inner1)
        elif ident in ("penalised_update_3d", "penalised_update_2d"):
            nc = 3 if dim == 3 else 2
            U = _lay(_ints(case["keys"][0], (nc, *shape), real_t), L[0], dim)
            G = _lay(_ints(case["keys"][1], (nc, *shape), real_t), L[1], dim)
            if case.get("pair") == "interleaved":
                # both velocities live in one state array (..., 2): overlapping memory extents, no common element
                state = np.stack([np.asarray(U), np.asarray(G)], axis=-1).copy()
                U, G = state[..., 0], state[..., 1]
            elif case.get("pair") == "one_allocation":
                state = np.concatenate([np.asarray(U).reshape(-1), np.full(3, 77.0, dtype=real_t), np.asarray(G).reshape(-1)])
                n_ = U.size
                U, G = state[:n_].reshape(U.shape), state[n_ + 3:].reshape(G.shape)
            w0 = _ints(case["keys"][2], (3, *shape) if dim == 3 else shape, real_t)
            W1 = _lay(w0.copy(), L[2], dim)
            W2 = _lay(w0.copy(), L[3], dim)
            Dd = _lay((G.astype(np.float64) - U.astype(np.float64)).astype(real_t), L[3], dim)
            _ck(f"gen_update_vorticity_from_penalised_velocity_pyst_kernel_{dim}d", real_t, thr)(
                vorticity_field=W1, penalised_velocity_field=G, velocity_field=U, prefactor=pre)
            _ck(f"gen_update_vorticity_from_velocity_forcing_pyst_kernel_{dim}d", real_t, thr)(
                vorticity_field=W2, velocity_forcing_field=Dd, prefactor=pre)
            if np.any(W1.astype(np.float64) != W2.astype(np.float64)):
                bad("penalised-velocity update != forcing update applied to the velocity difference", np.asarray(W1), np.asarray(W2),
                    (slice(None),) * (W1.ndim))
        else:  # curl_curl_2d
            psi = _ints(case["keys"][0], shape, real_t)
            P = _lay(psi.copy(), L[0], 2)
            V = _lay(np.zeros((2, *shape), dtype=real_t), L[1], 2)
            C = _lay(np.zeros(shape, dtype=real_t), L[2], 2)
            _ck("gen_outplane_field_curl_pyst_kernel_2d", real_t, thr, reset_ghost_zone=case["reset"])(curl=V, field=P, prefactor=pre)
            _ck("gen_inplane_field_curl_pyst_kernel_2d", real_t, thr)(curl=C, field=V, prefactor=real_t(1.0))
            p = psi.astype(np.float64)
            want = np.zeros(shape)
            want[2:-2, 2:-2] = -float(pre) * (p[2:-2, 4:] + p[2:-2, :-4] + p[4:, 2:-2] + p[:-4, 2:-2] - 4 * p[2:-2, 2:-2])
            if np.any(C[inner2].astype(np.float64) != want[inner2]):
                bad("in-plane curl of the out-of-plane curl != -p1 p2 (wide five-point Laplacian)", C, want, inner2)
            div = (V[0][2:-2, 3:-1].astype(np.float64) - V[0][2:-2, 1:-3]) + (V[1][3:-1, 2:-2].astype(np.float64) - V[1][1:-3, 2:-2])
            if np.any(div != 0):
                raise Violation(f"{ident}: velocity = curl(psi) from the compiled kernel is not discretely divergence-free (layouts {L})")
    ctx.note(nontrivial=any(q != "contig" for q in L) or len(set(shape)) > 1,
             labels=[ident, case["dtype"]] + sorted({"layout_" + q for q in L}))


PARTS = [
    Part(name="exact_identities", strategy=_strategy, body=_body_exact,
         examples={"quick": 1600, "thorough": 40000}, shards={"quick": 8, "thorough": 16}, variants=_ident_variants),
    Part(name="compiled_divergence", strategy=_compiled_strategy, body=_body_compiled,
         examples={"quick": 60, "thorough": 1500}, shards={"quick": 4, "thorough": 16}),
    Part(name="compiled_velocity_divergence", strategy=_veldiv_strategy, body=_veldiv_body, variants=_veldiv_variants,
         examples={"quick": 80, "thorough": 2000}, shards={"quick": 2, "thorough": 2}),
    Part(name="compiled_identities_any_layout", strategy=_cid_strategy, body=_cid_body, variants=_cid_variants,
         examples={"quick": 360, "thorough": 9000}, shards={"quick": 6, "thorough": 12}),
]
