"""Setup: make sure dependencies import and pre-compile the kernels the checks use into .cache.

The caches are keyed by generated source, so they can never mask a change in /repo; they only save
the ~1.3 s/kernel g++ time (and numba compile time) on the first run after a fresh restore.
Nothing here is required for correctness: every check rebuilds what it needs from /repo.
"""

from __future__ import annotations

import itertools
import sys
import time


def _jobs():
    from . import simcfg

    jobs = []
    for dtype in ("float32", "float64"):
        for thr in (False, 1, 2, 3, 4, 5, 7, 8, 16):
            if thr in (False, 1, 2, 3):
                jobs.append(("allgens", dtype, thr, None))
            jobs.append(("sims0", dtype, thr, None))
        # palette geometries with boundary zones (threads = SIM_THREADS)
        for dim in (2, 3):
            for gi in range(len(simcfg.PALETTE[dim])):
                jobs.append(("palette", dtype, simcfg.SIM_THREADS, (dim, gi)))
        for w in (1, 2, 3, 4):
            jobs.append(("c13pen", dtype, 2, w))
    for dtype in ("float32", "float64"):
        for dim in (2, 3):
            for kt in ("cosine", "peskin"):
                jobs.append(("numba", dtype, 2, (dim, kt)))
        jobs.append(("interaction", dtype, 2, None))
        jobs.append(("c18geom", dtype, 2, None))
        for asp in (1.0, 0.75, 1.25):
            jobs.append(("c02geom", dtype, 2, asp))
    return jobs


def _warm_one(args):
    kind, dtype, threads, extra = args
    import warnings

    warnings.filterwarnings("ignore")
    from . import capture

    capture.install()
    import numpy as np

    real_t = np.float32 if dtype == "float32" else np.float64
    t0 = time.time()
    try:
        import sopht.simulator as sps
        from . import kernels, simcfg

        if kind == "allgens":
            kernels.build_all(real_t, threads)
        elif kind == "sims0":
            import sopht.numeric.eulerian_grid_ops as spne

            sps.UnboundedNavierStokesFlowSimulator2D(
                grid_size=(8, 10), x_range=1.0, kinematic_viscosity=1e-2, real_t=real_t,
                num_threads=threads, with_forcing=True, with_free_stream_flow=True, penalty_zone_width=0)
            for solver in ("greens_function_convolution", "fast_diagonalisation"):
                for ft in ("multiplicative", "convolution"):
                    sps.UnboundedNavierStokesFlowSimulator3D(
                        grid_size=(6, 7, 8), x_range=1.0, kinematic_viscosity=1e-2, real_t=real_t,
                        num_threads=threads, with_forcing=True, with_free_stream_flow=True,
                        filter_vorticity=True, poisson_solver_type=solver, penalty_zone_width=0,
                        filter_setting_dict={"order": 1, "type": ft})
            sps.PassiveTransportFlowSimulator(kinematic_viscosity=1e-2, grid_dim=2, grid_size=(8, 10),
                                              x_range=1.0, real_t=real_t, num_threads=threads)
            for ft in ("scalar", "vector"):
                sps.PassiveTransportFlowSimulator(kinematic_viscosity=1e-2, grid_dim=3, grid_size=(6, 7, 8),
                                                  x_range=1.0, real_t=real_t, num_threads=threads, field_type=ft)
            mid = np.zeros((3, 4, 4, 4), dtype=real_t)
            spne.gen_vorticity_stretching_timestep_ssprk3_pyst_kernel_3d(real_t=real_t, midstep_buffer_vector_field=mid,
                                                                         num_threads=threads)
        elif kind == "palette":
            dim, gi = extra
            shape, xr = simcfg.PALETTE[dim][gi]
            for w in (1, 2, 3, 4):
                if min(shape) < 2 * w + 1:
                    continue
                if dim == 2:
                    sps.UnboundedNavierStokesFlowSimulator2D(
                        grid_size=shape, x_range=xr, kinematic_viscosity=1e-2, real_t=real_t, num_threads=threads,
                        penalty_zone_width=w)
                else:
                    sps.UnboundedNavierStokesFlowSimulator3D(
                        grid_size=shape, x_range=xr, kinematic_viscosity=1e-2, real_t=real_t, num_threads=threads,
                        penalty_zone_width=w)
        elif kind == "c13pen":
            w = extra
            for d in (2, 3):
                for shape in ([2 * w] * d, [2 * w + 1, 2 * w + 3, 2 * w + 2][:d], [9, 12, 10][:d]):
                    needs = "grid2" if d == 2 else "grid3"
                    opts = {"width": w} if d == 2 else {"width": w, "field_type": "scalar"}
                    kernels.build(f"gen_penalise_field_boundary_pyst_kernel_{d}d", opts, needs, real_t, 2,
                                  shape=tuple(shape), dx=0.1)
        elif kind == "numba":
            from . import ibm

            ibm.warm(real_t, dims=(extra[0],), kernel_types=(extra[1],))
        elif kind == "interaction":
            # marker counts used by C08 (end to end), C10 and C18 at dx = 1/16
            from sopht.numeric.immersed_boundary_ops import VirtualBoundaryForcing

            for dim, ns in ((2, (7, 33, 5, 6, 15)), (3, (7, 18, 33, 5, 6, 20, 22))):  # incl. the rod grids of C18
                for n in ns:
                    for reset in (True, False):
                        vbf = VirtualBoundaryForcing(1.0, 1.0, dim, real_t(0.0625), n, real_t, enable_eul_grid_forcing_reset=reset,
                                                     num_threads=False)
                        g = (24,) * dim
                        pos = np.full((dim, n), 0.7)
                        vbf.compute_interaction_forcing(eul_grid_forcing_field=np.zeros((dim, *g), dtype=real_t),
                                                        eul_grid_velocity_field=np.zeros((dim, *g), dtype=real_t),
                                                        lag_grid_position_field=pos, lag_grid_velocity_field=np.zeros((dim, n)))
                        vbf.time_step(0.1)
        elif kind == "c18geom":
            from .props import c18

            for dim in (2, 3):
                for shape in c18.SHAPES[dim]:
                    kw = dict(grid_size=shape, x_range=c18.DX * shape[-1], kinematic_viscosity=1e-2, real_t=real_t, num_threads=threads,
                              with_forcing=True, with_free_stream_flow=True, penalty_zone_width=2)
                    if dim == 2:
                        sps.UnboundedNavierStokesFlowSimulator2D(**kw)
                    else:
                        sps.UnboundedNavierStokesFlowSimulator3D(**kw)
        elif kind == "c02geom":
            from .props import c02

            for n in c02.RES[2]:
                other = max(int(round(n * extra / 2)) * 2, 8)
                sps.UnboundedNavierStokesFlowSimulator2D(grid_size=(other, n), x_range=1.0, kinematic_viscosity=1e-3, real_t=real_t,
                                                         num_threads=2, with_free_stream_flow=True, penalty_zone_width=2, cfl=0.25)
    except Exception as e:  # noqa: BLE001 - warming is best effort
        return (args, False, f"{type(e).__name__}: {e}", time.time() - t0)
    return (args, True, "", time.time() - t0)


def main() -> int:
    import multiprocessing as mp
    from concurrent.futures import ProcessPoolExecutor

    import hypothesis  # noqa: F401  (check.py installed it if it was missing)

    jobs = _jobs()
    t0 = time.time()
    nfail = 0
    with ProcessPoolExecutor(max_workers=16, mp_context=mp.get_context("spawn")) as ex:
        for args, ok, msg, dt in ex.map(_warm_one, jobs):
            if not ok:
                nfail += 1
            print(f"warm {args}: {'ok' if ok else 'FAILED ' + msg} ({dt:.1f}s)", file=sys.stderr)
    print(f"warm done in {time.time() - t0:.1f}s ({len(jobs)} jobs, {nfail} failed; failures are tolerated)", file=sys.stderr)
    return 0
