"""Setup: make sure dependencies import and pre-compile the kernels the checks use into .cache.

The caches are keyed by generated source, so they can never mask a change in /repo; they only save
the ~1.3 s/kernel g++ time (and numba compile time) on the first run after a fresh restore.
Nothing here is required for correctness: every check rebuilds what it needs from /repo.
"""

from __future__ import annotations

import itertools
import sys
import time


def _jobs():
    from . import simcfg

    jobs = []
    for dtype in ("float32", "float64"):
        for thr in (False, 1, 2, 3, 5, 8, 16):
            jobs.append(("allgens", dtype, thr, None))
            jobs.append(("sims0", dtype, thr, None))
        # palette geometries with boundary zones (threads = SIM_THREADS)
        for dim in (2, 3):
            for gi in range(len(simcfg.PALETTE[dim])):
                jobs.append(("palette", dtype, simcfg.SIM_THREADS, (dim, gi)))
        for w in (1, 2, 3, 4):
            jobs.append(("c13pen", dtype, 2, w))
    jobs.append(("numba", "float64", 2, None))
    jobs.append(("numba", "float32", 2, None))
    return jobs


def _warm_one(args):
    kind, dtype, threads, extra = args
    import warnings

    warnings.filterwarnings("ignore")
    from . import capture

    capture.install()
    import numpy as np

    real_t = np.float32 if dtype == "float32" else np.float64
    t0 = time.time()
    try:
        import sopht.simulator as sps
        from . import kernels, simcfg

        if kind == "allgens":
            kernels.build_all(real_t, threads)
        elif kind == "sims0":
            import sopht.numeric.eulerian_grid_ops as spne

            sps.UnboundedNavierStokesFlowSimulator2D(
                grid_size=(8, 10), x_range=1.0, kinematic_viscosity=1e-2, real_t=real_t,
                num_threads=threads, with_forcing=True, with_free_stream_flow=True, penalty_zone_width=0)
            for solver in ("greens_function_convolution", "fast_diagonalisation"):
                for ft in ("multiplicative", "convolution"):
                    sps.UnboundedNavierStokesFlowSimulator3D(
                        grid_size=(6, 7, 8), x_range=1.0, kinematic_viscosity=1e-2, real_t=real_t,
                        num_threads=threads, with_forcing=True, with_free_stream_flow=True,
                        filter_vorticity=True, poisson_solver_type=solver, penalty_zone_width=0,
                        filter_setting_dict={"order": 1, "type": ft})
            sps.PassiveTransportFlowSimulator(kinematic_viscosity=1e-2, grid_dim=2, grid_size=(8, 10),
                                              x_range=1.0, real_t=real_t, num_threads=threads)
            for ft in ("scalar", "vector"):
                sps.PassiveTransportFlowSimulator(kinematic_viscosity=1e-2, grid_dim=3, grid_size=(6, 7, 8),
                                                  x_range=1.0, real_t=real_t, num_threads=threads, field_type=ft)
            mid = np.zeros((3, 4, 4, 4), dtype=real_t)
            spne.gen_vorticity_stretching_timestep_ssprk3_pyst_kernel_3d(real_t=real_t, midstep_buffer_vector_field=mid,
                                                                         num_threads=threads)
        elif kind == "palette":
            dim, gi = extra
            shape, xr = simcfg.PALETTE[dim][gi]
            for w in (1, 2, 3, 4):
                if min(shape) < 2 * w + 1:
                    continue
                if dim == 2:
                    sps.UnboundedNavierStokesFlowSimulator2D(
                        grid_size=shape, x_range=xr, kinematic_viscosity=1e-2, real_t=real_t, num_threads=threads,
                        penalty_zone_width=w)
                else:
                    sps.UnboundedNavierStokesFlowSimulator3D(
                        grid_size=shape, x_range=xr, kinematic_viscosity=1e-2, real_t=real_t, num_threads=threads,
                        penalty_zone_width=w)
        elif kind == "c13pen":
            w = extra
            for d in (2, 3):
                for shape in ([2 * w] * d, [2 * w + 1, 2 * w + 3, 2 * w + 2][:d], [9, 12, 10][:d]):
                    needs = "grid2" if d == 2 else "grid3"
                    opts = {"width": w} if d == 2 else {"width": w, "field_type": "scalar"}
                    kernels.build(f"gen_penalise_field_boundary_pyst_kernel_{d}d", opts, needs, real_t, 2,
                                  shape=tuple(shape), dx=0.1)
        elif kind == "numba":
            from . import ibm

            ibm.warm(real_t)
    except Exception as e:  # noqa: BLE001 - warming is best effort
        return (args, False, f"{type(e).__name__}: {e}", time.time() - t0)
    return (args, True, "", time.time() - t0)


def main() -> int:
    import multiprocessing as mp
    from concurrent.futures import ProcessPoolExecutor

    import hypothesis  # noqa: F401  (check.py installed it if it was missing)

    jobs = _jobs()
    t0 = time.time()
    nfail = 0
    with ProcessPoolExecutor(max_workers=16, mp_context=mp.get_context("spawn")) as ex:
        for args, ok, msg, dt in ex.map(_warm_one, jobs):
            if not ok:
                nfail += 1
            print(f"warm {args}: {'ok' if ok else 'FAILED ' + msg} ({dt:.1f}s)", file=sys.stderr)
    print(f"warm done in {time.time() - t0:.1f}s ({len(jobs)} jobs, {nfail} failed; failures are tolerated)", file=sys.stderr)
    return 0
