#!/venv/bin/python
"""Run an EARLIER version of the checks (a git worktree of /verif at some commit) against a seeded change, so that
seeded/<name>/meta.json records what the machinery detected BEFORE it was strengthened in response to that change.

  tools/seed_base_eval.py <seed-name> --base /tmp/verif_base --props C04,C01

Writes meta["baseline_checks"] = {"commit": ..., prop: {...}}.  /repo itself is never modified (scratch copy + PYTHONPATH).
"""
import argparse, json, os, shutil, subprocess, time

HERE = os.path.dirname(os.path.dirname(os.path.abspath(__file__)))


def main():
    ap = argparse.ArgumentParser()
    ap.add_argument("name")
    ap.add_argument("--base", required=True)
    ap.add_argument("--props", required=True)
    a = ap.parse_args()
    dst = os.path.join(HERE, "seeded", a.name)
    meta = json.load(open(os.path.join(dst, "meta.json")))
    commit = subprocess.run(["git", "-C", a.base, "rev-parse", "--short", "HEAD"], capture_output=True, text=True).stdout.strip()
    scratch = f"/tmp/seedbase_{a.name}_{os.getpid()}"
    shutil.rmtree(scratch, ignore_errors=True)
    os.makedirs(scratch)
    try:
        shutil.copytree("/repo/sopht", os.path.join(scratch, "sopht"), ignore=shutil.ignore_patterns("__pycache__"))
        r = subprocess.run(["patch", "-p1", "-s", "-d", scratch, "-i", os.path.join(dst, "patch.diff")], capture_output=True, text=True)
        if r.returncode != 0:
            raise SystemExit("patch did not apply: " + r.stdout + r.stderr)
        out = dict(meta.get("baseline_checks", {}))
        out["commit"] = commit
        for prop in a.props.split(","):
            e = dict(os.environ)
            e.update(PYTHONPATH=scratch, SOPHTVERIF_NO_EVIDENCE="1", SOPHTVERIF_REPLAY_DIR=os.path.join(scratch, "replays"),
                     XDG_CACHE_HOME=os.path.join(HERE, ".cache", "xdg"), NUMBA_CACHE_DIR=os.path.join(HERE, ".cache", "numba"))
            t0 = time.time()
            p = subprocess.run(["/venv/bin/python", os.path.join(a.base, "check.py"), prop, "--tier", "quick"], env=e, cwd=a.base,
                               capture_output=True, text=True, timeout=7200)
            viol = [l for l in p.stdout.splitlines() if l.startswith("VIOLATION")]
            msg = [l.strip() for l in p.stdout.splitlines() if l.startswith("  part=")]
            out[prop] = {"exit": p.returncode, "violation": bool(viol) and p.returncode == 1, "wall_s": round(time.time() - t0, 1),
                         "message": msg[0][:300] if msg else ""}
            print(a.name, prop, out[prop], flush=True)
        meta = json.load(open(os.path.join(dst, "meta.json")))
        meta["baseline_checks"] = out
        json.dump(meta, open(os.path.join(dst, "meta.json"), "w"), indent=1)
    finally:
        shutil.rmtree(scratch, ignore_errors=True)


if __name__ == "__main__":
    main()
