"""Immersed-boundary helpers: communicator construction (numba compile palette), marker generators and an
independent numpy reference of the two delta-function kernels (interpolation and spreading)."""

from __future__ import annotations

import numpy as np
from hypothesis import strategies as st

from . import gen

# numba communicator kernels are closures over (dx, num_lag_nodes): each new pair costs seconds of compilation.
DX_PALETTE = [0.0625, 0.1, 0.0137]
N_PALETTE = {2: [1, 2, 7, 33], 3: [1, 3, 7, 33]}
# "any number of markers": a large count is part of the domain too (the communicators carry size-dependent code paths in
# comments/fallbacks); only at dx = DX_PALETTE[0] to bound the numba compile cost
N_LARGE = 640

_COMM = {}


def communicator(dim, dx, n, real_t, n_components, kernel_type):
    """(communicator, dx_real_t, shift_real_t) with the conventions VirtualBoundaryForcing uses."""
    from sopht.numeric.immersed_boundary_ops import (EulerianLagrangianGridCommunicator2D,
                                                     EulerianLagrangianGridCommunicator3D)

    key = (dim, float(dx), int(n), np.dtype(real_t).name, n_components, kernel_type)
    if key not in _COMM:
        cls = EulerianLagrangianGridCommunicator2D if dim == 2 else EulerianLagrangianGridCommunicator3D
        dxr = real_t(dx)
        shift = real_t(dxr / 2)
        _COMM[key] = (cls(dx=dxr, eul_grid_coord_shift=shift, num_lag_nodes=n, interp_kernel_width=2, real_t=real_t,
                          n_components=n_components, interp_kernel_type=kernel_type), dxr, shift)
    return _COMM[key]


def buffers(dim, n, real_t):
    nearest = np.empty((dim, n), dtype=int)
    support = np.empty((dim,) + (4,) * dim + (n,), dtype=real_t)
    weights = np.empty((4,) * dim + (n,), dtype=real_t)
    return nearest, support, weights


def compute_weights(com, pos, dim, n, real_t):
    nearest, support, weights = buffers(dim, n, real_t)
    com.local_eulerian_grid_support_of_lagrangian_grid_kernel(
        local_eul_grid_support_of_lag_grid=support, nearest_eul_grid_index_to_lag_grid=nearest, lag_positions=pos)
    support_copy = support.copy()
    com.interpolation_weights_kernel(interp_weights=weights, local_eul_grid_support_of_lag_grid=support)
    return nearest, support_copy, weights


def warm(real_t, dims=(2, 3), kernel_types=("cosine", "peskin")):
    for dim in dims:
        for dx in DX_PALETTE:
            for n in N_PALETTE[dim]:
                for kt in kernel_types:
                    for nc in (1, dim):
                        com, dxr, shift = communicator(dim, dx, n, real_t, nc, kt)
                        pos = np.full((dim, n), 5.3 * float(dxr))
                        nearest, _, w = compute_weights(com, pos, dim, n, real_t)
                        eul = np.zeros(((dim,) if nc > 1 else ()) + (12,) * dim, dtype=real_t)
                        lag = np.zeros(((dim, n) if nc > 1 else (n,)), dtype=real_t)
                        com.eulerian_to_lagrangian_grid_interpolation_kernel(
                            lag_grid_field=lag, eul_grid_field=eul, interp_weights=w, nearest_eul_grid_index_to_lag_grid=nearest)
                        com.lagrangian_to_eulerian_grid_interpolation_kernel(
                            eul_grid_field=eul, lag_grid_field=lag, interp_weights=w, nearest_eul_grid_index_to_lag_grid=nearest)


# ------------------------------------------------------------------------------------------------
# marker generator
# ------------------------------------------------------------------------------------------------

POSITION_CLASSES = ["uniform", "centre", "face", "centre_ulp32", "centre_ulp64", "face_ulp32", "face_ulp64", "same_cell",
                    "duplicate", "edge_low", "edge_high"]  # edge_*: the first / last admissible half cell of an axis


def marker_spec(dim, n):
    """JSON description of n markers: per marker a class, a cell (fractions of the admissible range) and offsets."""
    one = st.fixed_dictionaries({
        "cls": st.sampled_from(POSITION_CLASSES),
        "cell": st.lists(gen.floats(0.0, 1.0, 32), min_size=dim, max_size=dim),
        "frac": st.lists(gen.floats(0.0, 1.0, 32), min_size=dim, max_size=dim),
        "ulps": st.lists(st.sampled_from([-2, -1, 1, 2]), min_size=dim, max_size=dim),
        "axes": st.lists(st.booleans(), min_size=dim, max_size=dim),
    })
    return st.lists(one, min_size=n, max_size=n)


def build_markers(spec, shape, dx):
    """positions (dim, n) float64, x first; admissible interior: every coordinate in [2dx, (n_axis-2)dx].

    Returns (positions, class_labels).  ``shape`` is the array shape (.., ny, nx).
    """
    dim = len(shape)
    n = len(spec)
    dx = float(dx)
    pos = np.zeros((dim, n))
    labels = []
    ext = [shape[dim - 1 - c] for c in range(dim)]  # number of cells along x, y, z
    anchor = None
    for m, s in enumerate(spec):
        cls = s["cls"]
        for c in range(dim):
            nc = ext[c]
            # cell index with centre in the admissible interior: 2 .. nc-3 ; faces 2 .. nc-2
            ci = 2 + int(s["cell"][c] * max(nc - 5, 0) + 0.5) if nc >= 5 else 2
            ci = min(ci, nc - 3)
            centre = (ci + 0.5) * dx
            face = ci * dx
            lo, hi = 2.0 * dx, (nc - 2.0) * dx
            use_special = s["axes"][c] or cls in ("same_cell", "duplicate")
            if cls == "uniform" or not use_special:
                x = lo + s["frac"][c] * (hi - lo)
            elif cls == "centre":
                x = centre
            elif cls == "face":
                x = face
            elif cls.endswith("ulp32") or cls.endswith("ulp64"):
                base = centre if cls.startswith("centre") else face
                ft = np.float32 if cls.endswith("32") else np.float64
                v = ft(base)
                for _ in range(abs(s["ulps"][c])):
                    v = np.nextafter(v, ft(np.inf if s["ulps"][c] > 0 else -np.inf))
                x = float(v)
            elif cls == "edge_low":
                x = lo + 0.5 * dx * s["frac"][c]
            elif cls == "edge_high":
                x = hi - 0.5 * dx * s["frac"][c]
            elif cls == "same_cell":
                if anchor is None:
                    x = face + s["frac"][c] * dx
                else:
                    x = np.floor(anchor[c] / dx) * dx + s["frac"][c] * dx
            elif cls == "duplicate":
                x = anchor[c] if anchor is not None else centre
            else:
                raise ValueError(cls)
            pos[c, m] = min(max(x, lo), hi)
        if anchor is None:
            anchor = pos[:, m].copy()
        labels.append(cls)
    return pos, labels


# ------------------------------------------------------------------------------------------------
# independent reference (float64)
# ------------------------------------------------------------------------------------------------


def phi_cosine(r):
    r = np.abs(r)
    return np.where(r <= 2.0, 0.25 * (1.0 + np.cos(0.5 * np.pi * r)), 0.0)


def phi_peskin(r):
    r = np.abs(r)
    inner = (3.0 - 2.0 * r + np.sqrt(np.abs(1.0 + 4.0 * r - 4.0 * r * r))) / 8.0
    outer = (5.0 - 2.0 * r - np.sqrt(np.abs(-7.0 + 12.0 * r - 4.0 * r * r))) / 8.0
    return np.where(r < 1.0, inner, np.where(r < 2.0, outer, 0.0))


def ref_weights_full(pos, shape, dx, kernel_type):
    """Dense (n_markers, *shape) array of delta weights prod_a phi((x_cell - X)/dx)/dx (float64)."""
    dim = len(shape)
    phi = phi_cosine if kernel_type == "cosine" else phi_peskin
    dx = float(dx)
    n = pos.shape[1]
    w = np.ones((n, *shape))
    for c in range(dim):
        a = dim - 1 - c
        centres = (np.arange(shape[a]) + 0.5) * dx
        r = (centres[None, :] - pos[c][:, None]) / dx
        p = phi(r) / dx
        sh = [n] + [1] * dim
        sh[1 + a] = shape[a]
        w = w * p.reshape(sh)
    return w


def ref_interpolate(field, pos, dx, kernel_type):
    """(I u)_m = sum_cells u * w_m * dx^d ; field scalar (*shape) or vector (ncomp, *shape)."""
    field = np.asarray(field, dtype=np.float64)
    dim = pos.shape[0]
    shape = field.shape[-dim:]
    w = ref_weights_full(pos, shape, dx, kernel_type) * float(dx) ** dim
    axes = tuple(range(1, dim + 1))
    if field.ndim == dim:
        return np.sum(w * field[None], axis=axes)
    return np.stack([np.sum(w * field[c][None], axis=axes) for c in range(field.shape[0])])


def ref_spread(lag, pos, shape, dx, kernel_type):
    """(S F) = sum_m F_m w_m ; lag scalar (n,) or vector (ncomp, n)."""
    lag = np.asarray(lag, dtype=np.float64)
    w = ref_weights_full(pos, shape, dx, kernel_type)
    if lag.ndim == 1:
        return np.tensordot(lag, w, axes=(0, 0))
    return np.stack([np.tensordot(lag[c], w, axes=(0, 0)) for c in range(lag.shape[0])])


def build_markers_any(case, shape, dx):
    """Palette-sized sets are fully drawn (build_markers); large sets take the drawn markers first and fill the rest with
    positions that are a pure function of the drawn ``marker_key`` (uniform in the admissible interior)."""
    pos, labels = build_markers(case["markers"], shape, dx)
    n = int(case["n"])
    if pos.shape[1] >= n:
        return pos[:, :n], labels[:n]
    dim = len(shape)
    rng = np.random.Generator(np.random.Philox(key=int(case["marker_key"])))
    extra = np.zeros((dim, n - pos.shape[1]))
    for c in range(dim):
        nc = shape[dim - 1 - c]
        extra[c] = rng.uniform(2.0 * float(dx), (nc - 2.0) * float(dx), size=extra.shape[1])
    return np.concatenate([pos, extra], axis=1), labels + ["uniform"] * extra.shape[1]
