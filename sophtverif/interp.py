"""Interpreters of the captured kernel IR, independent of the JIT (DESIGN 1.3).

* exact mode: Python Fractions; float literals such as 0.8333333333333334 are rationalised with
  ``limit_denominator(10**6)`` so that 1/3, 5/6, 1/6, 0.25 ... are exact.
* float mode: numpy scalars of the kernel dtype, cells visited in a caller-supplied order, reading
  and writing the very arrays bound at the call site (the harness owns the schedule).
"""

from __future__ import annotations

import itertools
import math
from fractions import Fraction

import numpy as np
import sympy as sp


class NotExact(Exception):
    pass


def _is_access(e):
    return type(e).__name__ == "Access" and hasattr(e, "field") and hasattr(e, "offsets")


class Evaluator:
    """Recursive evaluator of a sympy expression tree over Fractions or numpy floats."""

    def __init__(self, exact: bool, dtype=np.float64):
        self.exact = exact
        self.dtype = dtype

    def num(self, e):
        if self.exact:
            if e.is_Integer:
                return Fraction(int(e))
            if e.is_Rational:
                return Fraction(int(e.p), int(e.q))
            if e.is_Float:
                return Fraction(float(e)).limit_denominator(10**6)
            if e is sp.pi:
                raise NotExact("pi")
            raise NotExact(repr(e))
        if e.is_Integer:
            return int(e)
        if e.is_Rational:
            return int(e.p) / int(e.q)
        return float(e)

    def ev(self, e, access, symbols):
        if _is_access(e):
            return access(e.field.name, tuple(int(o) for o in e.offsets))
        if e.is_Number or e is sp.pi:
            return self.num(e)
        if e.is_Symbol:
            name = e.name
            if name not in symbols:
                raise KeyError(f"unbound symbol {name}")
            return symbols[name]
        f = e.func
        if f is sp.Add:
            it = iter(e.args)
            acc = self.ev(next(it), access, symbols)
            for a in it:
                acc = acc + self.ev(a, access, symbols)
            return acc
        if f is sp.Mul:
            it = iter(e.args)
            acc = self.ev(next(it), access, symbols)
            for a in it:
                acc = acc * self.ev(a, access, symbols)
            return acc
        if f is sp.Pow:
            base = self.ev(e.args[0], access, symbols)
            ex = e.args[1]
            if ex.is_Integer:
                n = int(ex)
                if n >= 0:
                    return base**n
                if self.exact:
                    return Fraction(1) / (base ** (-n))
                return 1 / (base ** (-n))
            if self.exact:
                raise NotExact("non-integer power")
            return base ** float(ex)
        if f is sp.Piecewise:
            for val, cond in e.args:
                if self.cond(cond, access, symbols):
                    return self.ev(val, access, symbols)
            raise ValueError("Piecewise without a true branch")
        if f is sp.Abs:
            return abs(self.ev(e.args[0], access, symbols))
        if f is sp.sin:
            if self.exact:
                raise NotExact("sin")
            return np.sin(self.dtype(self.ev(e.args[0], access, symbols)))
        if f is sp.cos:
            if self.exact:
                raise NotExact("cos")
            return np.cos(self.dtype(self.ev(e.args[0], access, symbols)))
        raise NotImplementedError(f"unsupported node {f} in {e}")

    def cond(self, c, access, symbols):
        if c is sp.true or c is True:
            return True
        if c is sp.false or c is False:
            return False
        f = c.func
        if f in (sp.StrictGreaterThan, sp.GreaterThan, sp.StrictLessThan, sp.LessThan, sp.Eq, sp.Ne):
            a = self.ev(c.args[0], access, symbols)
            b = self.ev(c.args[1], access, symbols)
            return {sp.StrictGreaterThan: a > b, sp.GreaterThan: a >= b, sp.StrictLessThan: a < b,
                    sp.LessThan: a <= b, sp.Eq: a == b, sp.Ne: a != b}[f]
        if f is sp.And:
            return all(self.cond(a, access, symbols) for a in c.args)
        if f is sp.Or:
            return any(self.cond(a, access, symbols) for a in c.args)
        if f is sp.Not:
            return not self.cond(c.args[0], access, symbols)
        raise NotImplementedError(f"unsupported condition {c}")


EXACT = Evaluator(exact=True)


def eval_assignments_exact(record, access, symbols):
    """Evaluate all assignments of a record at one cell; returns {written_field: Fraction}.

    ``access(field, offsets)`` supplies the value of a field at an offset from the cell.  Reads of a
    field written by an earlier assignment of the same record see the new value at offset 0.
    """
    out = {}

    def acc(name, offs):
        if name in out and all(o == 0 for o in offs):
            return out[name]
        return access(name, offs)

    for a in record.assignments:
        out[a.lhs.field.name] = EXACT.ev(a.rhs, acc, symbols)
    return out


# ------------------------------------------------------------------------------------------------
# exact evaluation on a block of cells (dict-of-arrays of Fractions)
# ------------------------------------------------------------------------------------------------


class ExactGrid:
    """Small block of cells holding Fractions for several named fields."""

    def __init__(self, shape):
        self.shape = tuple(shape)
        self.fields: dict[str, np.ndarray] = {}

    def set(self, name, arr):
        a = np.empty(self.shape, dtype=object)
        a[...] = arr
        self.fields[name] = a

    def zeros(self, name):
        a = np.empty(self.shape, dtype=object)
        a[...] = Fraction(0)
        self.fields[name] = a
        return a

    def apply(self, record, binding: dict, symbols: dict, cells=None):
        """Run ``record`` over ``cells`` (default: every cell whose stencil stays inside the block).

        ``binding`` maps kernel field names to names in this grid.  Writes go to the bound arrays
        after all cells are evaluated from the *old* values (Jacobi semantics), which equals any
        sequential order iff the kernel has no cross-cell dependence (checked by C15).
        """
        r = record.reach()
        if cells is None:
            cells = itertools.product(*[range(r, n - r) for n in self.shape])
        new = []
        for cell in cells:
            def access(name, offs, cell=cell):
                idx = tuple(c + o for c, o in zip(cell, offs))
                return self.fields[binding[name]][idx]

            res = eval_assignments_exact(record, access, symbols)
            new.append((cell, res))
        for cell, res in new:
            for fname, v in res.items():
                self.fields[binding[fname]][cell] = v


# ------------------------------------------------------------------------------------------------
# order-controlled float interpreter on real arrays
# ------------------------------------------------------------------------------------------------


def iteration_cells(record, shape):
    """Cells the compiled kernel iterates over: the iteration slice, else interior by ghost layers."""
    shape = tuple(shape)
    isl = record.iteration_slice
    if isl is not None:
        if not isinstance(isl, tuple):
            isl = (isl,)
        ranges = []
        for s, n in zip(isl, shape):
            if isinstance(s, slice):
                ranges.append(range(*s.indices(n)))
            else:
                ranges.append(range(int(s) % n, int(s) % n + 1))
        for n in shape[len(ranges):]:
            ranges.append(range(n))
        return list(itertools.product(*ranges))
    g = record.reach()
    return list(itertools.product(*[range(g, n - g) for n in shape]))


def run_in_order(record, arrays: dict, scalars: dict, order):
    """Execute the kernel cell by cell in the given order of cell indices, in place."""
    fields = record.fields()
    any_field = next(iter(fields))
    dtype = arrays[any_field].dtype.type
    evl = Evaluator(exact=False, dtype=dtype)
    syms = {k: dtype(v) for k, v in scalars.items()}
    for cell in order:
        def access(name, offs, cell=cell):
            return arrays[name][tuple(c + o for c, o in zip(cell, offs))]

        for a in record.assignments:
            val = evl.ev(a.rhs, access, syms)
            arrays[a.lhs.field.name][tuple(c + o for c, o in zip(cell, a.lhs.offsets))] = val


def fourier_symbol_1d(record, field_name: str, axis: int, theta: float) -> complex:
    """Symbol of a linear constant-coefficient stencil reading ``field_name`` along one axis."""
    total = 0j
    for a in record.assignments:
        expr = sp.expand(a.rhs)
        for acc in expr.atoms(type(a.lhs)):
            if acc.field.name != field_name:
                continue
            coef = complex(expr.coeff(acc))
            total += coef * np.exp(1j * theta * int(acc.offsets[axis]))
    return total


def to_fraction_scalar(v):
    """Scalar kernel argument -> Fraction (floats such as 1.0/3.0, 0.75 are rationalised like IR literals)."""
    if isinstance(v, Fraction):
        return v
    if isinstance(v, (int, np.integer)):
        return Fraction(int(v))
    return Fraction(float(v)).limit_denominator(10**6)


def run_exact(record, kwargs):
    """Execute a kernel invocation whose arrays hold Fractions (object dtype), in place, cell by cell."""
    arrays = {k: v for k, v in kwargs.items() if isinstance(v, np.ndarray)}
    scalars = {k: to_fraction_scalar(v) for k, v in kwargs.items() if not isinstance(v, np.ndarray)}
    written = record.written_fields()
    cells = iteration_cells(record, arrays[written[0]].shape)
    for cell in cells:
        def access(name, offs, cell=cell):
            return arrays[name][tuple(c + o for c, o in zip(cell, offs))]

        res = eval_assignments_exact(record, access, scalars)
        for fname, val in res.items():
            arrays[fname][cell] = val
