"""Run a list of (module, part, case) bodies sequentially in ONE fresh Python process.

Process-wide state of the code under test (module-level caches, memoised generators, globals) starts empty in a fresh process,
so the ORDER in which generators / objects are created there is part of the generated case: the parent draws the order, the
child executes it and reports the first violation.  Used by C13 part generation_order_fresh_process.

  python -m sophtverif.freshproc  < {"module": "...", "part": "...", "cases": [...]}   -> one JSON line on stdout
"""

from __future__ import annotations

import json
import os
import subprocess
import sys

from .runner import VERIF_ROOT, HarnessError, Violation, _json_default


def run_in_fresh_process(module: str, part: str, cases: list, timeout: float = 900.0) -> dict:
    env = dict(os.environ)
    env["PYTHONPATH"] = VERIF_ROOT + (os.pathsep + env["PYTHONPATH"] if env.get("PYTHONPATH") else "")
    env.setdefault("PYTHONHASHSEED", "0")
    p = subprocess.run([sys.executable, "-m", "sophtverif.freshproc"], input=json.dumps(
        {"module": module, "part": part, "cases": cases}, default=_json_default), capture_output=True, text=True,
        env=env, cwd=VERIF_ROOT, timeout=timeout)
    lines = [l for l in p.stdout.splitlines() if l.startswith("FRESHPROC-RESULT ")]
    if not lines:
        raise HarnessError(f"fresh-process driver produced no result (exit {p.returncode}): {p.stderr[-1500:]}")
    return json.loads(lines[-1][len("FRESHPROC-RESULT "):])


def _main():
    import importlib
    import warnings

    warnings.simplefilter("ignore")
    req = json.loads(sys.stdin.read())
    from . import capture

    capture.install()
    from .runner import Ctx

    mod = importlib.import_module(req["module"])
    part = next(p for p in mod.PARTS if p.name == req["part"])
    ctx = Ctx(mod.PROPERTY_ID, part.name, "quick", 0, 0, 1e9)
    out = {"violation": None, "executed": 0, "labels": []}
    try:
        if part.setup is not None:
            part.setup(ctx)
        for i, case in enumerate(req["cases"]):
            ctx.begin_case()
            try:
                part.body(case, ctx)
            except Violation as v:
                out["violation"] = {"index": i, "message": v.msg, "key": v.key}
                break
            out["executed"] += 1
            out["labels"].append(sorted(set(ctx._cur_labels)))
    except BaseException as e:  # noqa: BLE001
        import traceback

        out["error"] = "".join(traceback.format_exception(type(e), e, e.__traceback__))[-3000:]
    print("FRESHPROC-RESULT " + json.dumps(out, default=_json_default), flush=True)


if __name__ == "__main__":
    _main()
