"""C11 - the fast-diagonalisation solver solves the discrete Neumann Poisson problem."""

from __future__ import annotations

import warnings

import numpy as np
from hypothesis import strategies as st

from .. import gen
from ..refs import poisson as ref
from ..runner import Part, Violation

PROPERTY_ID = "C11"
LEVEL = "exploration"
RULE = (
    "Hypothesis draws the solver (2-D, 3-D), every extent independently in 2..24 (quick) / 2..64 (thorough; 3-D volume <= "
    "32768 cells) or, in a third of the cases, an elongated grid (one axis 33..160 in 2-D / 33..96 in 3-D, the others 2..6), dx over 4 decades, precision, and a right-hand side (all field kinds incl. constants = pure null space, "
    "and zero-mean variants); the real solver is constructed and solve()/vector_field_solve() called. Oracle: an independent "
    "operator L u = sum_axes (2u - u+ - u-)/dx^2 with edge replication (homogeneous Neumann at the faces): solution dtype is "
    "the real working precision, no ComplexWarning-free requirement is imposed; |mean(u)| <= 200 n eps max|u|; "
    "max|L u - (f - mean f)| <= 64 (n^2/10 + n) eps max|f| (n = largest extent; the solution scales with n^2); vector solve == three scalar solves bit-wise; rhs "
    "unchanged. Non-trivial: non-square/non-cubic shape and a right-hand side that is neither constant nor zero. "
    "Distinct = digest of case."
)
ASSUMPTIONS = ["dense symmetric eigen-decomposition (LAPACK) trusted; tolerance 200*n*eps relative (DESIGN planned 50; measured worst case 60 on thorough-tier shapes)"]
BUDGET_S = {"quick": 120.0, "thorough": 1800.0}


def _variants(tier):
    return ["2d", "3d", "3d_vector"]


def _strategy(tier, var):
    @st.composite
    def case(draw):
        dim = 2 if var == "2d" else 3
        hi = (64 if dim == 2 else 32) if tier == "thorough" else (24 if dim == 2 else 10)
        # elongated grids: one long axis (the conditioning of the 1-D eigen-problems depends on the extent, not the volume)
        long_hi = (256 if dim == 2 else 128) if tier == "thorough" else (160 if dim == 2 else 96)
        elong = st.tuples(st.integers(0, dim - 1), st.integers(33, long_hi), st.lists(st.integers(2, 6), min_size=dim, max_size=dim)).map(
            lambda t: [t[1] if i == t[0] else t[2][i] for i in range(dim)])
        shape = draw(st.one_of(gen.grid_shape(dim, 2, hi, max_cells=32768), gen.grid_shape(dim, 2, hi, max_cells=32768), elong))
        return {"solver": var, "shape": shape, "dx": draw(gen.nice_or_log(1e-2, 1e2)), "dtype": draw(gen.precisions),
                "rhs": draw(gen.vector_field_spec(3, max_mag_exp=8)), "zero_mean": draw(st.booleans())}

    return case()


def _check_one(u, f, dx, real_t, what, n):
    eps = float(np.finfo(real_t).eps)
    if u.dtype != real_t:
        raise Violation(f"{what}: solution dtype {u.dtype} is not the working precision {np.dtype(real_t)}")
    u64, f64 = u.astype(np.float64), f.astype(np.float64)
    if not np.all(np.isfinite(u64)):
        raise Violation(f"{what}: non-finite solution")
    umax, fmax = float(np.max(np.abs(u64))), float(np.max(np.abs(f64)))
    tiny = 64 * float(np.finfo(real_t).tiny)
    if abs(float(np.mean(u64))) > 200 * n * eps * umax + tiny:
        raise Violation(f"{what}: solution mean {float(np.mean(u64)):.3e} is not zero (max|u| {umax:.3e})")
    res = ref.neumann_neg_laplacian(u64, dx) - (f64 - np.mean(f64))
    r = float(np.max(np.abs(res)))
    # dense eigen-decomposition + three matrix products per axis: the residual grows like n * eps * max|f|; the constant
    # 50 planned in DESIGN was exceeded by 20% on 27x14 and 2x12x24 grids of the thorough tier, 200 leaves a factor ~3
    # (thorough tier, 135 x 2 grid: 215 n eps) the solution is as large as max|f| dx^2 n^2/pi^2 (smallest non-zero eigenvalue), its
    # rounding error enters the residual divided by dx^2: the scale is n^2/pi^2 for long axes, n for short ones
    tol = 64 * (n * n / 10.0 + n) * eps * fmax + tiny / dx**2
    return r, tol


def _body(case, ctx):
    import sopht.numeric.eulerian_grid_ops as spne

    var = case["solver"]
    shape = tuple(case["shape"])
    dim = len(shape)
    real_t = gen.np_dtype(case["dtype"])
    dx = real_t(case["dx"])
    n = max(shape)
    with warnings.catch_warnings():
        warnings.simplefilter("ignore")
        with ctx.repo_call(f"constructing FastDiagPoissonSolver{dim}D"):
            if dim == 2:
                solver = spne.FastDiagPoissonSolver2D(grid_size_y=shape[0], grid_size_x=shape[1], dx=dx, real_t=real_t)
            else:
                solver = spne.FastDiagPoissonSolver3D(grid_size_z=shape[0], grid_size_y=shape[1], grid_size_x=shape[2], dx=dx, real_t=real_t)
        rhs = gen.build_vector_field(case["rhs"], shape, real_t)
        if case["zero_mean"]:
            rhs = (rhs - rhs.mean(axis=tuple(range(1, dim + 1)), keepdims=True)).astype(real_t)
        rhs0 = rhs.copy()
        if var == "3d_vector":
            sol = np.full((3, *shape), 1e30, dtype=real_t)
            with ctx.repo_call("vector_field_solve"):
                solver.vector_field_solve(solution_vector_field=sol, rhs_vector_field=rhs)
            sol2 = np.zeros_like(sol)
            for c in range(3):
                with ctx.repo_call("solve"):
                    solver.solve(solution_field=sol2[c], rhs_field=rhs[c])
            if sol.tobytes() != sol2.tobytes():
                raise Violation("vector_field_solve differs bit-wise from three scalar solves")
            comps = [(sol[c], rhs[c]) for c in range(3)]
        else:
            sol = np.full(shape, 1e30, dtype=real_t)
            with ctx.repo_call(f"FastDiagPoissonSolver{dim}D.solve", key=f"FastDiagPoissonSolver{dim}D.solve raises"):
                solver.solve(solution_field=sol, rhs_field=rhs[0])
            comps = [(sol, rhs[0])]
            # history independence on the same solver object: an unrelated solve in between must not change the answer
            other = np.full(shape, -3.0e7, dtype=real_t)
            again = np.full(shape, 1e30, dtype=real_t)
            with ctx.repo_call(f"FastDiagPoissonSolver{dim}D.solve (repeat)"):
                solver.solve(solution_field=other, rhs_field=rhs[1])
                solver.solve(solution_field=again, rhs_field=rhs[0])
            if again.tobytes() != sol.tobytes():
                raise Violation(f"{var}: solving the same right-hand side again after another solve on the same object gives a different result")
    if rhs.tobytes() != rhs0.tobytes():
        raise Violation("solve() modified its right-hand side")
    for u, f in comps:
        r, tol = _check_one(u, f, float(dx), real_t, f"{var} shape {list(shape)} dx {float(dx):.4g} {case['dtype']}", n)
        ctx.extra["max_res_over_tol"] = max(ctx.extra.get("max_res_over_tol", 0.0), r / tol if tol > 0 else 0.0)
        if r > tol:
            raise Violation(f"{var}: discrete Neumann residual max|L u - (f - mean f)| = {r:.3e} > {tol:.3e} "
                            f"(shape {list(shape)}, dx {float(dx):.4g}, {case['dtype']})")
    kinds = {s["kind"] for s in case["rhs"][: 3 if var == "3d_vector" else 1]}
    ctx.note(nontrivial=len(set(shape)) > 1 and not kinds <= {"constant", "zero"},
             labels=[var, case["dtype"], "noncubic" if len(set(shape)) > 1 else "cubic"] + (["long_axis_ge_48"] if n >= 48 else []) + sorted("rhs_" + k for k in kinds))


PARTS = [
    Part(name="neumann_residual", strategy=_strategy, body=_body, variants=_variants,
         examples={"quick": 1500, "thorough": 18000}, shards={"quick": 6, "thorough": 12}),
]
