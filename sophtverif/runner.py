"""Runner: seeding, sharding over processes, budgets, replay files, evidence, known findings.

A property module exposes ``PARTS: list[Part]`` and metadata (``PROPERTY_ID``, ``RULE``,
``ASSUMPTIONS``).  A Part couples a Hypothesis strategy producing a JSON-serialisable *case* with a
body ``body(case, ctx)`` that raises :class:`Violation` when the property is broken for that case.
The body never draws random numbers itself: every random choice is in the case.
"""

from __future__ import annotations

import hashlib
import importlib
import json
import os
import sys
import time
import traceback
import zlib
from collections import Counter
from contextlib import contextmanager
from dataclasses import dataclass, field
from typing import Any, Callable

VERIF_ROOT = os.path.dirname(os.path.dirname(os.path.abspath(__file__)))
KNOWN_FINDINGS_FILE = os.path.join(VERIF_ROOT, "known_findings.txt")


class Violation(Exception):
    """The property is violated for the current case."""

    def __init__(self, msg: str, key: str | None = None, detail: Any = None):
        super().__init__(msg)
        self.msg = msg
        self.key = key
        self.detail = detail


class HarnessError(Exception):
    """The harness itself is broken (never reported as a violation)."""


class BudgetStop(BaseException):
    """Time budget exhausted: aborts the running Hypothesis test (BaseException, so Hypothesis does not treat it as a
    failure).  Skipping inside the test instead would make stateful generation flaky (preconditions would depend on time)."""


@dataclass
class Part:
    name: str
    strategy: Callable[[str], Any]  # tier -> SearchStrategy[case]
    body: Callable[[Any, "Ctx"], None]
    examples: dict  # {"quick": n, "thorough": n}
    shards: dict = field(default_factory=lambda: {"quick": 1, "thorough": 8})
    stateful: bool = False  # strategy(tier) returns a RuleBasedStateMachine class instead
    steps: dict = field(default_factory=lambda: {"quick": 20, "thorough": 40})
    weight: float = 1.0  # share of the time budget
    exhaustive: Callable[[str], list] | None = None  # tier -> explicit list of cases (enumeration)
    setup: Callable[["Ctx"], None] | None = None
    # stratification: variants(tier) -> list of JSON-able variant ids; strategy(tier, variant) is then
    # called once per variant and each variant gets its own Hypothesis run (examples split evenly)
    variants: Callable[[str], list] | None = None
    min_examples_per_variant: int = 4


def derive_seed(*parts) -> int:
    return zlib.crc32("|".join(str(p) for p in parts).encode()) & 0x7FFFFFFF


def case_digest(case) -> str:
    return hashlib.blake2b(
        json.dumps(case, sort_keys=True, default=_json_default).encode(), digest_size=8
    ).hexdigest()


def _json_default(o):
    import numpy as np

    if isinstance(o, (np.integer,)):
        return int(o)
    if isinstance(o, (np.floating,)):
        return float(o)
    if isinstance(o, np.ndarray):
        return o.tolist()
    if isinstance(o, (set, frozenset, tuple)):
        return list(o)
    from fractions import Fraction

    if isinstance(o, Fraction):
        return [o.numerator, o.denominator]
    return repr(o)


def load_known_findings(prop_id: str) -> dict[str, str]:
    """{key: description} of *unrepaired* findings listed for the property."""
    out: dict[str, str] = {}
    if not os.path.exists(KNOWN_FINDINGS_FILE):
        return out
    with open(KNOWN_FINDINGS_FILE) as f:
        for line in f:
            line = line.strip()
            if not line.startswith("finding:"):
                continue
            rest = line[len("finding:") :].strip()
            toks = rest.split(None, 2)
            if len(toks) < 2 or not toks[0].startswith("property=") or not toks[1].startswith("key="):
                continue
            if toks[0][len("property=") :] != prop_id:
                continue
            out[toks[1][len("key=") :]] = toks[2] if len(toks) > 2 else ""
    return out


class Ctx:
    """Per (part, shard) context: counters, budget, failure capture."""

    def __init__(self, prop_id: str, part: str, tier: str, seed: int, shard: int, budget_s: float):
        self.prop_id = prop_id
        self.part = part
        self.tier = tier
        self.seed = seed
        self.shard = shard
        self.t0 = time.time()
        self.budget_s = budget_s
        self.evaluations = 0
        self.skipped_budget = 0
        self.labels: Counter = Counter()
        self.nontrivial: set[str] = set()
        self.distinct: set[str] = set()
        self.samples: list = []
        self.last_failure: tuple | None = None
        self.known = load_known_findings(prop_id)
        self.known_hits: Counter = Counter()
        self._cur_nontrivial = False
        self._cur_labels: list[str] = []
        self.extra: dict = {}
        self.slice_deadline: float | None = None
        self.slice_evals = 0
        self.guaranteed = 0

    # -- budget --------------------------------------------------------------------------------
    def out_of_time(self) -> bool:
        if self.last_failure is not None:
            return False
        now = time.time()
        if self.slice_evals < self.guaranteed and (now - self.t0) < 4.0 * self.budget_s:
            # every variant completes a few cases whatever the machine load (hard cap: four times the budget)
            return False
        return (now - self.t0) > self.budget_s or (self.slice_deadline is not None and now > self.slice_deadline)

    def budget_left(self) -> float:
        return self.budget_s - (time.time() - self.t0)

    # -- bookkeeping called by bodies ----------------------------------------------------------
    def note(self, nontrivial: bool | None = None, labels=()):
        if nontrivial is not None:
            self._cur_nontrivial = self._cur_nontrivial or bool(nontrivial)
        for lab in labels:
            self._cur_labels.append(str(lab))

    def begin_case(self):
        self._cur_nontrivial = False
        self._cur_labels = []

    def end_case(self, case):
        self.evaluations += 1
        self.slice_evals += 1
        d = case_digest(case)
        self.distinct.add(d)
        for lab in set(self._cur_labels):
            self.labels[lab] += 1
        if self._cur_nontrivial:
            if d not in self.nontrivial:
                self.nontrivial.add(d)
                if len(self.samples) < 3:
                    self.samples.append(_shorten(case))
        elif len(self.samples) < 1:
            self.samples.append(_shorten(case))

    # -- calling the code under test -----------------------------------------------------------
    @contextmanager
    def repo_call(self, what: str, key: str | None = None, allow: tuple = ()):
        """An exception escaping the code under test on an admissible input is a violation."""
        try:
            yield
        except Violation:
            raise
        except allow:
            raise
        except Exception as e:  # noqa: BLE001
            tb = traceback.extract_tb(e.__traceback__)
            where = ""
            for fr in reversed(tb):
                if "/sopht/" in fr.filename and "/sophtverif/" not in fr.filename:
                    where = f" at {os.path.basename(fr.filename)}:{fr.name}"
                    break
            raise Violation(
                f"{what} raised {type(e).__name__}: {str(e)[:200]}{where}", key=key
            ) from e


def _shorten(case, limit=1500):
    s = json.dumps(case, sort_keys=True, default=_json_default)
    if len(s) <= limit:
        return json.loads(s)
    return {"truncated_json": s[:limit] + "..."}


# ------------------------------------------------------------------------------------------------
# running one (part, shard) -- executed in a worker process
# ------------------------------------------------------------------------------------------------


def _hyp_settings(max_examples: int, stateful_steps: int | None = None):
    from hypothesis import HealthCheck, Phase, settings

    kw = dict(
        max_examples=max_examples,
        database=None,
        deadline=None,
        derandomize=False,
        report_multiple_bugs=False,
        suppress_health_check=list(HealthCheck),
        phases=[Phase.explicit, Phase.generate, Phase.shrink],
        print_blob=False,
    )
    if stateful_steps is not None:
        kw["stateful_step_count"] = stateful_steps
    return settings(**kw)


def run_part_shard(module_name: str, part_name: str, tier: str, seed: int, shard: int,
                   budget_s: float, n_examples: int, nshards: int = 1) -> dict:
    """Run one shard of one part; returns a JSON-able result dict."""
    t0 = time.time()
    res: dict = {
        "part": part_name, "shard": shard, "status": "ok", "evaluations": 0, "labels": {},
        "nontrivial": [], "distinct": 0, "samples": [], "skipped_budget": 0, "known_hits": {},
        "failure": None, "error": None, "wall_s": 0.0, "exhaustive": False, "extra": {},
    }
    try:
        os.environ.setdefault("PYTHONHASHSEED", "0")
        for _v in ("OPENBLAS_NUM_THREADS", "MKL_NUM_THREADS", "NUMEXPR_NUM_THREADS"):
            os.environ.setdefault(_v, "1")
        from . import capture

        capture.install()
        from . import covprobe

        covprobe.start()
        mod = importlib.import_module(module_name)
        part = next(p for p in mod.PARTS if p.name == part_name)
        ctx = Ctx(mod.PROPERTY_ID, part_name, tier, seed, shard, budget_s)
        if part.setup is not None:
            part.setup(ctx)
        dseed = derive_seed(seed, mod.PROPERTY_ID, part_name, shard)
        res["derived_seed"] = dseed

        def run_one(case):
            if ctx.evaluations % 25 == 24:
                import gc

                gc.collect()
            if ctx.out_of_time():
                raise BudgetStop()
            ctx.begin_case()
            try:
                part.body(case, ctx)
            except Violation as v:
                if v.key is not None and v.key in ctx.known:
                    ctx.known_hits[v.key] += 1
                    ctx.end_case(case)
                    return
                case_rec = getattr(v, "case_override", None) or case
                ctx.last_failure = (json.loads(json.dumps(case_rec, default=_json_default)), v.msg, v.key)
                raise
            ctx.end_case(case)

        try:
            if part.exhaustive is not None:
                cases = part.exhaustive(tier)
                if shard == 0:
                    for case in cases:
                        run_one(case)
                    res["exhaustive"] = ctx.skipped_budget == 0
            elif part.stateful:
                _run_stateful(part, ctx, tier, dseed, n_examples, run_one)
            elif part.variants is not None:
                from hypothesis import given
                from hypothesis import seed as hseed

                allv = list(part.variants(tier))
                mine = allv[shard::nshards]
                per = max(part.min_examples_per_variant, n_examples // max(1, len(mine)))
                res["extra"]["variants_total"] = len(allv)
                for vi, variant in enumerate(mine):
                    # fair time slices: a slow or loaded run shortens every variant instead of dropping the last ones
                    ctx.slice_deadline = time.time() + max(0.0, ctx.budget_left()) / (len(mine) - vi)
                    ctx.slice_evals, ctx.guaranteed = 0, min(per, 4)
                    strat = part.strategy(tier, variant)

                    @hseed(derive_seed(dseed, json.dumps(variant, sort_keys=True, default=_json_default)))
                    @_hyp_settings(per)
                    @given(strat)
                    def test_v(case):
                        run_one(case)

                    try:
                        test_v()
                    except Violation:
                        raise
                    except BaseException:  # noqa: BLE001
                        if ctx.last_failure is None and ctx.out_of_time():
                            res["extra"]["budget_exhausted"] = True
                            res["extra"]["variants_cut_short"] = res["extra"].get("variants_cut_short", 0) + 1
                            ctx.labels["variants_run"] += 1
                            continue
                        raise
                    ctx.labels["variants_run"] += 1
                ctx.slice_deadline, ctx.guaranteed = None, 0
            else:
                from hypothesis import given
                from hypothesis import seed as hseed

                strat = part.strategy(tier)

                @hseed(dseed)
                @_hyp_settings(n_examples)
                @given(strat)
                def test(case):
                    run_one(case)

                test()
        except Violation:
            pass
        except BudgetStop:
            res["extra"]["budget_exhausted"] = True
        except HarnessError:
            raise
        except BaseException as e:  # noqa: BLE001
            if ctx.last_failure is None and ctx.out_of_time():
                # aborting on the time budget makes Hypothesis see a shorter run for a known prefix (FlakyStrategyDefinition
                # and friends): that is the budget, not a harness error
                res["extra"]["budget_exhausted"] = True
                res["extra"]["budget_stop_via"] = type(e).__name__
            elif ctx.last_failure is None:
                raise
            else:
                # Flaky / wrapped errors after a genuine failure was captured: keep the failure.
                res["extra"]["post_failure_exception"] = f"{type(e).__name__}: {str(e)[:200]}"

        if ctx.last_failure is not None:
            case, msg, key = ctx.last_failure
            # plain regression re-run without the library
            reproduced = False
            try:
                ctx.begin_case()
                part.body(case, ctx)
            except Violation:
                reproduced = True
            res["status"] = "violation"
            res["failure"] = {"case": case, "message": msg, "key": key, "reproduced": reproduced}
        res.update(
            evaluations=ctx.evaluations, labels=dict(ctx.labels), nontrivial=sorted(ctx.nontrivial),
            distinct=len(ctx.distinct), samples=ctx.samples,
            skipped_budget=max(ctx.skipped_budget, max(0, n_examples - ctx.evaluations) if res["extra"].get("budget_exhausted") else 0),
            known_hits=dict(ctx.known_hits),
        )
        res["extra"].update(ctx.extra)
    except BaseException as e:  # noqa: BLE001
        res["status"] = "error"
        res["error"] = "".join(traceback.format_exception(type(e), e, e.__traceback__))[-6000:]
    res["wall_s"] = time.time() - t0
    try:
        from . import covprobe

        covprobe.dump(f"{module_name.rsplit('.', 1)[-1]}-{part_name}-{shard}")
    except Exception:  # noqa: BLE001
        pass
    return res


def run_regress(module_name: str, files: list) -> dict:
    """Replay tier: committed shrunk failures (regress/<id>/*.json) as plain regression checks."""
    t0 = time.time()
    res = {"part": "regression_replays", "shard": 0, "status": "ok", "evaluations": 0, "labels": {},
           "nontrivial": [], "distinct": 0, "samples": [], "skipped_budget": 0, "known_hits": {},
           "failure": None, "error": None, "wall_s": 0.0, "exhaustive": False, "extra": {}, "regress": True}
    try:
        from . import capture

        capture.install()
        mod = importlib.import_module(module_name)
        for path in files:
            with open(path) as f:
                rp = json.load(f)
            part = next(p for p in mod.PARTS if p.name == rp["part"])
            ctx = Ctx(mod.PROPERTY_ID, part.name, "quick", 0, 0, 1e9)
            if part.setup is not None:
                part.setup(ctx)
            ctx.begin_case()
            try:
                part.body(rp["case"], ctx)
            except Violation as v:
                if v.key is not None and v.key in ctx.known:
                    res["known_hits"][v.key] = res["known_hits"].get(v.key, 0) + 1
                else:
                    res["status"] = "violation"
                    res["failure"] = {"case": rp["case"], "message": v.msg, "key": v.key, "reproduced": True,
                                      "part": part.name, "path": path}
                    break
            res["evaluations"] += 1
            res["labels"][os.path.basename(path)] = 1
    except BaseException as e:  # noqa: BLE001
        res["status"] = "error"
        res["error"] = "".join(traceback.format_exception(type(e), e, e.__traceback__))[-6000:]
    res["wall_s"] = time.time() - t0
    return res


def _run_stateful(part, ctx, tier, dseed, n_examples, run_one):
    """part.strategy(tier) returns (MachineClass, interpret) -- see sophtverif.stateful."""
    from hypothesis import seed as hseed
    from hypothesis.stateful import run_state_machine_as_test

    machine_cls = part.strategy(tier)
    machine_cls._ctx = ctx
    machine_cls._run_one = staticmethod(run_one)
    steps = part.steps.get(tier, 20)
    run_state_machine_as_test(hseed(dseed)(machine_cls), settings=_hyp_settings(n_examples, steps))


# ------------------------------------------------------------------------------------------------
# orchestration (main process)
# ------------------------------------------------------------------------------------------------

TIER_BUDGET_S = {"quick": 150.0, "thorough": 3000.0}


def run_property(module_name: str, tier: str, seed: int, jobs: int | None = None,
                 only_parts: list[str] | None = None, budget_s: float | None = None) -> int:
    from concurrent.futures import ProcessPoolExecutor, as_completed
    import multiprocessing as mp

    t0 = time.time()
    mod = importlib.import_module(module_name)
    prop_id = mod.PROPERTY_ID
    parts = [p for p in mod.PARTS if not only_parts or p.name in only_parts]
    budget = budget_s if budget_s is not None else float(
        os.environ.get("VERIF_BUDGET_S", getattr(mod, "BUDGET_S", TIER_BUDGET_S)[tier])
    )
    jobs = jobs or int(os.environ.get("VERIF_JOBS", "16"))

    tasks = []
    for p in parts:
        nsh = 1 if p.exhaustive is not None else max(1, int(p.shards.get(tier, 1)))
        n_ex = int(p.examples.get(tier, 50))
        if tier == "quick":
            # the per-part example counts were sized on a loaded machine; the quick tier runs twice as many (time budgets unchanged:
            # a slow machine runs fewer, never more than the budget allows)
            n_ex = int(n_ex * float(os.environ.get("VERIF_QUICK_SCALE", "2")))
        per = max(1, n_ex // nsh)
        for sh in range(nsh):
            tasks.append((module_name, p.name, tier, seed, sh, budget * p.weight, per, nsh))

    results = []
    rdir = os.path.join(VERIF_ROOT, "regress", prop_id)
    rfiles = sorted(os.path.join(rdir, f) for f in os.listdir(rdir) if f.endswith(".json")) if os.path.isdir(rdir) else []
    if only_parts:
        rfiles = []
    if jobs == 1 or (len(tasks) == 1 and not rfiles):
        if rfiles:
            results.append(run_regress(module_name, rfiles))
        for t in tasks:
            results.append(run_part_shard(*t))
    else:
        ctxmp = mp.get_context("spawn")
        with ProcessPoolExecutor(max_workers=min(jobs, len(tasks) + 1), mp_context=ctxmp) as ex:
            futs = {ex.submit(run_part_shard, *t): t for t in tasks}
            if rfiles:
                futs[ex.submit(run_regress, module_name, rfiles)] = (module_name, "regression_replays", tier, seed, 0)
            for fu in as_completed(futs):
                try:
                    results.append(fu.result())
                except BaseException as e:  # noqa: BLE001
                    t = futs[fu]
                    results.append({"part": t[1], "shard": t[4], "status": "error",
                                    "error": f"worker died: {type(e).__name__}: {e}",
                                    "evaluations": 0, "labels": {}, "nontrivial": [], "distinct": 0,
                                    "samples": [], "skipped_budget": 0, "known_hits": {},
                                    "failure": None, "wall_s": 0.0, "exhaustive": False, "extra": {}})
    results.sort(key=lambda r: (r["part"], r["shard"]))
    return finish(mod, tier, seed, results, time.time() - t0)


def finish(mod, tier: str, seed: int, results: list[dict], wall_s: float) -> int:
    prop_id = mod.PROPERTY_ID
    known = load_known_findings(prop_id)
    errors = [r for r in results if r["status"] == "error"]
    viols = [r for r in results if r["status"] == "violation"]
    known_hits: Counter = Counter()
    for r in results:
        for k, n in r.get("known_hits", {}).items():
            known_hits[k] += n

    evaluations = sum(r["evaluations"] for r in results)
    nontriv = set()
    for r in results:
        nontriv |= {f"{r['part']}:{h}" for h in r["nontrivial"]}
    labels: Counter = Counter()
    for r in results:
        for k, n in r["labels"].items():
            labels[f"{r['part']}/{k}"] += n
    samples = []
    for r in results:
        for s in r["samples"][:2]:
            samples.append({"part": r["part"], "case": s})
    per_part = {}
    for r in results:
        pp = per_part.setdefault(r["part"], {"evaluations": 0, "distinct_nontrivial": 0, "shards": 0,
                                             "skipped_budget": 0, "wall_s": 0.0, "exhaustive": False})
        pp["evaluations"] += r["evaluations"]
        pp["distinct_nontrivial"] += len(r["nontrivial"])
        pp["shards"] += 1
        pp["skipped_budget"] += r["skipped_budget"]
        pp["wall_s"] = round(max(pp["wall_s"], r["wall_s"]), 2)
        pp["exhaustive"] = pp["exhaustive"] or r.get("exhaustive", False)
        for k, v in (r.get("extra") or {}).items():
            ex = pp.setdefault("extra", {})
            if isinstance(v, (int, float)) and isinstance(ex.get(k), (int, float)):
                ex[k] = max(ex[k], v)
            else:
                ex[k] = v

    # replay files
    viol_lines = []
    seen_paths = set()
    for r in viols:
        fz = r["failure"]
        if r.get("regress"):
            viol_lines.append((fz["path"], fz["message"], fz["part"] + " (regression replay)"))
            continue
        rid = case_digest([r["part"], fz["case"]])
        d = os.path.join(os.environ.get("SOPHTVERIF_REPLAY_DIR", os.path.join(VERIF_ROOT, "replays")), prop_id)
        os.makedirs(d, exist_ok=True)
        path = os.path.join(d, f"{r['part']}-{rid}.json")
        with open(path, "w") as f:
            json.dump({"property": prop_id, "module": mod.__name__, "part": r["part"],
                       "case": fz["case"], "message": fz["message"], "key": fz["key"],
                       "reproduced_without_hypothesis": fz["reproduced"], "tier": tier,
                       "seed": seed}, f, indent=1, default=_json_default)
        if path not in seen_paths:
            viol_lines.append((path, fz["message"], r["part"]))
            seen_paths.add(path)

    evidence = {
        "property_id": prop_id,
        "tier": tier,
        "seed": int(seed),
        "level": getattr(mod, "LEVEL", "exploration"),
        "coverage": {
            "evaluations": int(evaluations),
            "distinct_nontrivial": int(len(nontriv)),
            "rule": mod.RULE,
            "samples": samples[:8] if samples else [{"note": "no case executed"}],
            "per_part": per_part,
            "class_counts": dict(sorted(labels.items())),
            "known_findings_hit": dict(known_hits),
            "budget_skipped_cases": int(sum(r["skipped_budget"] for r in results)),
            "exhaustive": bool(results) and all(r.get("exhaustive", False) for r in results),
        },
        "assumptions": list(getattr(mod, "ASSUMPTIONS", [])) + COMMON_ASSUMPTIONS,
        "wall_s": round(wall_s, 2),
        "violations": len(viols),
    }
    if errors:
        evidence["coverage"]["harness_errors"] = [
            {"part": r["part"], "shard": r["shard"], "error": (r["error"] or "")[-1500:]} for r in errors
        ]
    if not os.environ.get("SOPHTVERIF_NO_EVIDENCE"):
        os.makedirs(os.path.join(VERIF_ROOT, "evidence"), exist_ok=True)
        with open(os.path.join(VERIF_ROOT, "evidence", f"{prop_id}.json"), "w") as f:
            json.dump(evidence, f, indent=1, default=_json_default)

    for k in sorted(known):
        if known_hits.get(k, 0) > 0:
            print(f"KNOWN-FINDING: property={prop_id} {k}: {known[k]} (met {known_hits[k]} times)")
    for path, msg, part in viol_lines:
        print(f"VIOLATION property={prop_id} replay={path}")
        print(f"  part={part}: {msg}")
    print(f"[{prop_id}] tier={tier} seed={seed} evaluations={evaluations} "
          f"distinct_nontrivial={len(nontriv)} violations={len(viols)} errors={len(errors)} "
          f"wall={wall_s:.1f}s")
    for name, pp in per_part.items():
        print(f"  part {name}: n={pp['evaluations']} nontrivial={pp['distinct_nontrivial']} "
              f"skipped_budget={pp['skipped_budget']} wall={pp['wall_s']}s")
    sys.stdout.flush()
    if viols:
        return 1
    if errors:
        for r in errors:
            print(f"HARNESS-ERROR part={r['part']} shard={r['shard']}:\n{r['error']}", file=sys.stderr)
        return 2
    return 0


COMMON_ASSUMPTIONS = [
    "sopht is imported from /repo's working tree through the editable install in /venv",
    "compat layer (sophtverif/compat.py): CreateKernelConfig keyword translation + 4th loop counter "
    "for pystencils 2.0; pystencils code generation, g++ -Ofast, OpenMP, FFTW, numba, h5py, "
    "PyElastica are exercised but trusted",
    "time budget exhaustion skips cases (counted in budget_skipped_cases) and is never a violation",
]


def replay(path: str) -> int:
    with open(path) as f:
        rp = json.load(f)
    from . import capture

    capture.install()
    mod = importlib.import_module(rp["module"])
    part = next(p for p in mod.PARTS if p.name == rp["part"])
    ctx = Ctx(rp["property"], rp["part"], "quick", 0, 0, 1e9)
    if part.setup is not None:
        part.setup(ctx)
    try:
        ctx.begin_case()
        part.body(rp["case"], ctx)
    except Violation as v:
        print(f"VIOLATION property={rp['property']} replay={path}")
        print(f"  part={rp['part']}: {v.msg}")
        return 1
    print(f"[{rp['property']}] replay {path}: property holds on this case")
    return 0
