#!/venv/bin/python
"""Regenerate MANIFEST.json from the table below (single source of truth for claims)."""
import json, os, sys

HERE = os.path.dirname(os.path.dirname(os.path.abspath(__file__)))

BASELINE_CMD = ("cd /repo && /venv/bin/python -m pytest -ra -q -p no:cacheprovider --timeout=900 "
                "--continue-on-collection-errors")

COMMON_NOTE = ("Trusted base: compat layer sophtverif/compat.py (pystencils 1.4->2.0 keyword translation, "
               "4th loop counter), pystencils code generation, g++ -Ofast/OpenMP, FFTW, numba, h5py, "
               "PyElastica, numpy/scipy used by the oracles. Exploration only: no absence proof; counts and "
               "class distribution of generated cases are in the evidence file.")

# id -> (claimed, technique, level text, design ref, extra note)
CHECKS = {
    "C03": (True, "Hypothesis stateful machine (solve/vector_solve/scribble/impulse histories) vs O(N^2) direct Green's-function convolution oracle",
            "Generated solver histories on one solver object (all shapes 2..20/2..9 quick, 2..48/2..16 thorough, both "
            "precisions, thread counts, domain lengths 1e-8..1e4, one long axis) compared after every solve with an independent float64 direct aperiodic "
            "convolution; reciprocity/no-image relations on impulses; bit-wise vector==3 scalar solves.",
            "3/C03", ""),
    "C01": (True, "Hypothesis-generated simulator configurations/states vs independent float64 numpy reference of the documented operator sequence (differential oracle)",
            "Generated (configuration, grid, state, dt) cases for all three simulator classes run through the public "
            "constructor + time_step and compared after each of 1-2 steps with an independent reference implementation "
            "with a stated norm-wise tolerance; exact time update and bit-wise zero forcing field. Domain includes inviscid "
            "(nu = 0) runs, axis-aligned free streams, field amplitudes 2^-24..2^16, domain sizes over six decades, grids with one "
            "long axis, dt taken from the simulator's own compute_stable_timestep, constructor calls with default arguments "
            "omitted, and histories of two live simulators with different parameters (interleaved steps, re-stated fields, queries).",
            "3/C01, 12", ""),
    "C04": (True, "Hypothesis: grid-sum invariant on real simulators with compact fields + exact-rational face-flux equality and block-sum identities on captured stencil IR",
            "Sum invariants of real time steps for generated compactly supported states with arbitrary velocity; "
            "cell-level conservation form decided in exact rational arithmetic on the symbolic stencils for every "
            "upwind branch pattern including ties. The step under test may be preceded by an earlier step of the same "
            "object and by public queries (stable time step, divergence norm); dt optionally from the simulator.", "3/C04, 12", ""),
    "C05": (True, "Hypothesis: exact-rational evaluation of every captured stencil on drawn polynomials vs analytic derivatives; compiled wrappers on sampled polynomials",
            "Randomized polynomial-identity testing (rational coefficients, spacings, prefactors, cells) of all 31 "
            "differential stencils against an independent polynomial class, plus compiled public wrappers on "
            "simulator-convention grids; finite inventory check that every differential stencil is covered.",
            "3/C05", ""),
    "C12": (True, "Hypothesis: exact-rational composition of captured stencils on 5^d blocks (identities as equalities of rationals) + compiled divergence norm on generated simulator states",
            "Discrete identities (div curl = 0, div-free recovered velocity, wide Laplacian, update == library curl, "
            "penalised == forcing of difference) tested as exact equalities on drawn rational blocks; compiled "
            "counterpart through the public 3-D simulator, and the same identities on the compiled public kernels with "
            "integer-valued data (exact in floating point) on arbitrary memory layouts (strided, component-last, sub-block, Fortran).",
            "3/C12, 12", ""),
    "C13": (True, "Hypothesis over a registry of all 50 public kernel generators x options x shapes x memory layouts, sentinel-prefilled outputs vs closed-form numpy references",
            "Every generator/option entry gets its own Hypothesis run (stratified): documented value inside the documented "
            "region within a stated tolerance, bit-identity outside it, inputs and memory around strided/sub-block/transposed "
            "views bit-identical (sign of zero aside); enumeration that every public generator has an entry; kernels of one operator "
            "family generated in a drawn ORDER in a fresh process (process-wide generator state); scalar arguments incl. exact 0/+-1; "
            "shapes with one long axis.", "3/C13, 12", ""),
    "C15": (True, "Exhaustive IR dependence rules over every generated kernel + Hypothesis scenarios under a call-site aliasing monitor with harness-owned permuted replay + bit-identity across drawn OpenMP thread counts",
            "Clause (a) enumerates all kernels generated in the run (exhaustive for that finite set); clause (b) inspects every "
            "kernel invocation of generated simulator/solver/filter/RK/interaction scenarios for output/input aliasing and replays "
            "it cell by cell in different orders; clause (c) samples real thread counts {1,2,3,5,8,16} (half of the cases spanning the "
            "whole range) incl. two bodies coupled through the public interaction classes and the stable-step query.", "3/C15, 12", ""),
    "C11": (True, "Hypothesis-generated shapes/spacings/right-hand sides vs an independent discrete Neumann operator (residual + zero-mean oracle)",
            "Generated solver instances (2-D, 3-D scalar and vector) over shapes 2..24 (quick) / 2..64 (thorough): the returned "
            "field must be real, zero-mean and satisfy the independently coded Neumann finite-difference operator up to "
            "64 (n^2/10 + n) eps; a third of the cases on elongated grids (one axis 33..160 / 33..96).",
            "3/C11, 12", ""),
    "C16": (True, "Hypothesis-generated simulators/velocities/viscosities/CFL: inequality oracles on compute_stable_timestep; discrete maximum principle on the diffusion kernels",
            "All three simulator classes with generated velocity fields (zero, constant, spikes up to 2^20, noise), viscosities "
            "over 8 decades and CFL numbers: both documented limits, linearity in the prefactor, positivity; diffusion kernels "
            "at and below the limit must be convex averagings. Includes nu = 0, the balanced regime where both limits cross, "
            "thread counts 1..7, the maximum in the first/last cells of the flattened array, query histories on one simulator.",
            "3/C16, 12", ""),
    "C19": (True, "Stratified Hypothesis over every stabilising operator and option: convexity/monotonicity/bound invariants, Fourier-symbol metamorphic relation, buffer-history independence",
            "Brinkmann (all Eulerian variants + Lagrangian kernel) with penalty sequences incl. 0 and 2^40 and exact 0/1 "
            "indicators; characteristic function at +-blend +- ulps; damping widths 0..6 from the minimal extent; filters of "
            "order 1..4 on constants/checkerboards/plane waves with zero vs poisoned work buffers; blend widths of the "
            "characteristic function drawn per case.", "3/C19, 12", ""),
    "C20": (True, "Hypothesis differential test of each time-step kernel against a polynomial in the library's own flux kernel; exact-rational execution of the repo's wrappers through the IR interpreter",
            "Euler kernels == field + flux(field) and SSP-RK3 == (I+A+A^2/2+A^3/6) with A from the public flux kernel, for "
            "generated fields/velocities/steps/shapes/precisions; the same identities as exact equalities when the repo's "
            "Python wrappers are run on Fraction arrays; zero steps, long axes, memory layouts, and the kernels generated in a "
            "fresh process after a drawn list of related generator calls.", "3/C20, 12", ""),
    "C06": (True, "Stratified Hypothesis over marker position classes (cell centres/faces +- ulps, clustered, duplicates) with moment-condition oracles on the real numba kernels",
            "Real support/weights/interpolation/spreading kernels driven as VirtualBoundaryForcing drives them; partition of unity, "
            "non-negativity, compact support, Peskin first moment, exact reproduction of constants/affine fields/the simulator's own "
            "position_field; markers in the first/last admissible half cell of an axis, 640-marker sets, elongated grids, dirty output buffers.", "3/C06, 12", ""),
    "C07": (True, "Stratified Hypothesis: adjointness/force/torque invariants between the real interpolation and spreading kernels + independent numpy delta-function reference for accumulation",
            "Adjoint identity, total force, Peskin first moment, and accumulation over pre-filled targets / overlapping supports / "
            "repeated calls against an independent float64 reference; interpolation into dirty (re-used) output buffers.", "3/C07, 12", ""),
    "C08": (True, "Stratified Hypothesis over all forcing-grid classes x generated poses/rods/forces: momentum, moment and power balance invariants; end-to-end balance through the real interaction classes; plus a libFuzzer (atheris) campaign per variant over the same generator and oracle, steered by branch coverage of the pure-Python repo modules",
            "Net force, net moment about a drawn point (nodal forces + lab-frame element couples) and power balance of "
            "transfer_forcing_from_grid_to_body for every grid class; fluid+body force balance through "
            "ImmersedBodyFlowInteraction.__call__/compute_flow_forces_and_torques. Grid objects have a generated earlier life "
            "(0-2 earlier body states with the per-evaluation calls), bodies re-posed / re-bound after grid construction.", "3/C08, 12", ""),
    "C09": (True, "Stratified Hypothesis over all forcing-grid classes: marker positions/velocities vs independent rigid-section kinematics, exact pose advance with Taylor-remainder bound; plus a libFuzzer (atheris) campaign per variant over the same generator and oracle, steered by branch coverage of the pure-Python repo modules",
            "Independent float64 kinematics reference (lab-frame angular velocity, mass-weighted element velocity, Rodrigues "
            "pose advance) for every rigid-body and rod grid, incl. radius/cap-ratio geometry and bit-identity of the nodal grid; "
            "same earlier-life histories of the grid object as C08.",
            "3/C09, 12", ""),
    "C10": (True, "Hypothesis stateful machine (evaluate / body forces / time_step / move / change flow / consume forcing; 1-3 bodies sharing one field) against a Python model of the PI law",
            "Model-based testing of call histories on real ImmersedBodyFlowInteraction / RigidBodyFlowInteraction objects: after "
            "every rule the marker force, integral, mismatch, time and the shared Eulerian field equal the model; flow velocity and "
            "body state bit-identical; velocity view read-only. Marker kinematics of real rigid bodies are recomputed from the body "
            "state (not taken from the grid the interaction drives); forcing clocks up to 1e9, float32 dt scalars, thread counts "
            "handed to the interactions, bodies brought exactly to rest.", "3/C10, 12", ""),
    "C02": (True, "Hypothesis-generated physical parameters and resolution families vs closed-form Lamb-Oseen / Gaussian solutions; convergence order and error bounds calibrated on the unchanged tree",
            "Generated families of 3-5 resolutions (2-D: 32..128, 3-D: 16..48) integrated with the simulator's own stable time step "
            "to a common final time; relative L2 error against the analytic solution must decrease monotonically, show a "
            "coarsest-to-finest order >= 1 - delta and stay below B(n) (delta, B calibrated from 240 generated families, "
            "calibration/c02.json). Members may be off-palette sizes (nominal + 1..6 cells), structures weak (peak 1e-7) to strong.", "3/C02, 12",
            "Calibrated constants: a degradation that keeps ~first-order convergence and stays under 3x the calibrated error is not visible here."),
    "C14": (True, "Stratified Hypothesis: metamorphic commuting-diagram test between two real simulators related by a drawn element of the grid symmetry group",
            "State transformed by axis permutations and mirrors (vorticity as pseudo-scalar/vector, polar vectors with signs); a second "
            "simulator with the permuted grid takes the same step; results must commute within 512 eps S for every simulator class "
            "and configuration; dt optionally from both simulators' own stable-step query (which must agree).", "3/C14, 12", ""),
    "C17": (True, "Stratified Hypothesis over generated registries and raw bit-pattern contents (NaN payloads, inf, denormals): bit-exact round-trip, h5py layout oracle, rejection of tampered files; plus a libFuzzer (atheris) campaign per variant over the same generator and oracle, steered by branch coverage of the pure-Python repo modules",
            "IO, EulerianFieldIO and CosseratRodIO with generated names/grids/marker counts (incl. N == dim, field names repeated across "
            "grids, grids without fields): save leaves sources untouched, fresh objects reload bit-exactly, on-disk layout as documented, "
            "missing datasets / differing grid parameters (on the reader's or the file's side, zero origin components) raise; file "
            "histories: save() into an existing file name with the same or a reduced registry; name alphabets whose (grid, field) "
            "pairs join to the same string.", "3/C17, 12", ""),
    "C18": (True, "Hypothesis over (configuration, checkpoint index) pairs: resumed run with poisoned scratch vs uninterrupted run (differential); generated checkpoint directories vs a model of the restart helper",
            "Coupled flow-body runs (2-D cylinder / 3-D sphere, all simulator options) checkpointed through the IO layer at a drawn "
            "step, resumed in fresh objects whose scratch arrays are poisoned, compared with the uninterrupted run; restart helper "
            "on generated file sets (indices >= 10000, unrelated files, matching/mismatching PyElastica state). Bodies: rigid "
            "cylinder/sphere or a Cosserat rod with a drawn forcing-grid class; rolling checkpoints that overwrite earlier files "
            "through long-lived or fresh IO objects; unstable couplings that leave the admissible domain are excluded and counted.",
            "3/C18, 12", ""),
}

NOT_BUILT_REASON = "check not built yet (work in progress in this session; will be claimed once its generated check is registered)"


def main():
    props = [json.loads(l) for l in open(os.path.join(HERE, "properties.jsonl"))]
    checks, na = [], []
    for p in props:
        pid = p["id"]
        ent = CHECKS.get(pid)
        if ent and ent[0]:
            _, tech, text, ref, note = ent
            checks.append({
                "property_id": pid,
                "quick_cmd": f"/venv/bin/python check.py {pid} --tier quick",
                "thorough_cmd": f"/venv/bin/python check.py {pid} --tier thorough",
                "evidence_file": f"/verif/evidence/{pid}.json",
                "replay_cmd_template": "/venv/bin/python check.py --replay {path}",
                "engine": "sophtverif",
                "level_claimed": {"category": "exploration", "text": text, "design_ref": f"DESIGN.md section {ref}"},
                "level_note": (note + " " if note else "") + COMMON_NOTE,
                "technique": tech,
            })
        else:
            na.append({"property_id": pid, "reason": (ent[4] if ent and ent[4] else NOT_BUILT_REASON)})
    man = {
        "version": 1,
        "setup_cmd": "/venv/bin/python check.py --warm",
        "hooks": {
            "guard": "SOPHT_VERIF",
            "enable": "no source hooks are needed: observation is done by wrapping pystencils.kernel / "
                      "pystencils.create_kernel from /verif (sophtverif/capture.py); the guard name is reserved but unused",
            "baseline_off_cmd": BASELINE_CMD,
            "source_commits": [],
            "add_only": True,
        },
        "engines": [{
            "name": "sophtverif",
            "path": "/verif/sophtverif",
            "serves_properties": [c["property_id"] for c in checks],
            "kind_free_text": "Hypothesis property-based tests (plain and stateful) + exhaustive enumeration of small finite "
                              "domains, against independent numpy/Fraction oracles; kernel IR captured from pystencils; "
                              "coverage-guided fuzzing (atheris/libFuzzer through Hypothesis' fuzz_one_input) of the "
                              "pure-Python parts (IO layer, forcing grids) with the same oracles",
        }],
        "checks": checks,
        "not_applicable": na,
        "notes": "All checks: cwd=/verif, honour VERIF_SEED / VERIF_TIER, rewrite evidence/<id>.json, exit 0/1/2 "
                 "(2 = harness error, never a VIOLATION line). known_findings.txt lists unrepaired findings and fixed ones.",
    }
    json.dump(man, open(os.path.join(HERE, "MANIFEST.json"), "w"), indent=1)
    print(f"claimed {len(checks)}, not_applicable {len(na)}")


if __name__ == "__main__":
    sys.exit(main())
