"""C07 - spreading is the adjoint of interpolation and conserves force (and torque)."""

from __future__ import annotations

import numpy as np
from hypothesis import strategies as st

from .. import gen, ibm
from ..runner import Part, Violation

PROPERTY_ID = "C07"
LEVEL = "exploration"
RULE = (
    "Stratified over {2-D,3-D} x {cosine, peskin} x precision x {scalar, vector} components. Hypothesis draws grid shape "
    "(non-cubic), dx/marker count (palette), marker classes as in C06 with emphasis on clustered-in-one-cell and exact "
    "duplicates, an Eulerian field u and a Lagrangian field F (all kinds), a non-zero pre-fill of the target field and 1-3 "
    "successive spreading calls. Oracles: sum_m F_m (I u)_m == sum_cells (S F) u dx^d within 64eps*sum|terms|; grid integral "
    "of S F == sum_m F_m; Peskin: first moment of S F about a drawn point == sum_m (X_m - P) F_m; accumulation: target == "
    "pre-fill + calls * sum_m (single-marker spread computed by an independent float64 numpy delta function). Non-trivial: "
    ">= 2 markers with overlapping supports or exact duplicates and non-zero pre-fill. Distinct = digest of case."
)
ASSUMPTIONS = ["markers at least two cells inside the domain", "(dx, N) from the numba-compile palette"]
BUDGET_S = {"quick": 150.0, "thorough": 2400.0}


def _variants(tier):
    base = [[d, k, p, v, "palette"] for d in (2, 3) for k in ("cosine", "peskin") for p in ("float32", "float64") for v in (False, True)]
    return base + [[d, k, "float64", True, "large"] for d in (2, 3) for k in ("cosine", "peskin")]


def _strategy(tier, var):
    dim, kt, dtype, vec, nmode = var

    @st.composite
    def case(draw):
        n = draw(st.sampled_from(ibm.N_PALETTE[dim])) if nmode == "palette" else ibm.N_LARGE
        hi = (30 if dim == 2 else 12) if tier == "quick" else (64 if dim == 2 else 20)
        nc = dim if vec else 1
        large = nmode == "large"
        return {"dim": dim, "kernel": kt, "dtype": dtype, "vector": vec,
                "dx": ibm.DX_PALETTE[0] if large else draw(st.sampled_from(ibm.DX_PALETTE)), "n": n,
                "marker_key": draw(gen.block_keys) if large else None,
                "shape": _elongate(draw, draw(gen.grid_shape(dim, 8 if large else 6, hi)), dim, tier), "markers": draw(ibm.marker_spec(dim, 6 if large else n)),
                "u": draw(gen.vector_field_spec(nc, max_mag_exp=6)), "prefill": draw(gen.vector_field_spec(nc, max_mag_exp=6)),
                "F": draw(st.lists(st.lists(gen.floats(-8.0, 8.0, 32), min_size=min(n, 40), max_size=min(n, 40)), min_size=nc, max_size=nc)),
                "F_exp": draw(st.integers(-6, 6)), "calls": draw(st.integers(1, 3)),
                "point": draw(st.lists(gen.floats(-1.0, 2.0, 32), min_size=dim, max_size=dim))}

    return case()


def _elongate(draw, shape, dim, tier):
    """with probability 1/4 stretch one axis (markers then sit at large coordinates / cell indices)"""
    if draw(st.integers(0, 3)) != 0:
        return shape
    ax = draw(st.integers(0, dim - 1))
    long_n = draw(st.integers(200 if dim == 2 else 60, (1500 if dim == 2 else 300) if tier == "thorough" else (500 if dim == 2 else 120)))
    shape = [min(n, 8) for n in shape]
    shape[ax] = long_n
    return shape


def _body(case, ctx):
    dim, kt, n, vec = case["dim"], case["kernel"], case["n"], case["vector"]
    real_t = gen.np_dtype(case["dtype"])
    eps = float(np.finfo(real_t).eps)
    shape = tuple(case["shape"])
    nc = dim if vec else 1
    with ctx.repo_call("constructing the grid communicator"):
        com, dxr, shift = ibm.communicator(dim, case["dx"], n, real_t, nc, kt)
    dx = float(dxr)
    vol = dx**dim
    pos, labels = ibm.build_markers_any(case, shape, dx)
    with ctx.repo_call("support + weights kernels"):
        nearest, support, w = ibm.compute_weights(com, pos, dim, n, real_t)
    u = gen.build_vector_field(case["u"], shape, real_t)
    pre = gen.build_vector_field(case["prefill"], shape, real_t)
    Fd = np.array(case["F"], dtype=np.float64)
    if Fd.shape[1] < n:  # large marker sets: drawn values tiled with a deterministic modulation
        reps = -(-n // Fd.shape[1])
        Fd = np.tile(Fd, (1, reps))[:, :n] * (1.0 + 0.37 * np.cos(np.arange(n)))
    F = (Fd * 2.0 ** case["F_exp"]).astype(real_t)
    if not vec:
        u, pre, F = u[0], pre[0], F[0]
    # the Lagrangian output buffer is re-used from step to step by its callers: interpolation overwrites whatever it holds
    lag = np.full_like(F, 777.25)
    with ctx.repo_call("interpolation kernel"):
        com.eulerian_to_lagrangian_grid_interpolation_kernel(lag_grid_field=lag, eul_grid_field=u, interp_weights=w,
                                                             nearest_eul_grid_index_to_lag_grid=nearest)
    eul = pre.copy()
    F0, u0, w0 = F.copy(), u.copy(), w.copy()
    for _ in range(case["calls"]):
        with ctx.repo_call("spreading kernel"):
            com.lagrangian_to_eulerian_grid_interpolation_kernel(eul_grid_field=eul, lag_grid_field=F, interp_weights=w,
                                                                 nearest_eul_grid_index_to_lag_grid=nearest)
    if F.tobytes() != F0.tobytes() or u.tobytes() != u0.tobytes() or w.tobytes() != w0.tobytes():
        raise Violation("interpolation/spreading modified one of its inputs")
    calls = case["calls"]
    SF = (eul.astype(np.float64) - pre.astype(np.float64)) / calls  # one spread
    F64, u64, lag64 = F.astype(np.float64), u.astype(np.float64), lag.astype(np.float64)
    pre_mag = float(np.max(np.abs(pre))) if pre.size else 0.0
    # (1) adjoint identity
    lhs = float(np.sum(F64 * lag64))
    rhs = float(np.sum(SF * u64)) * vol
    W = w.astype(np.float64)
    wsum = np.abs(W).reshape(-1, n).sum(axis=0) * vol  # ~1 per marker
    umax = float(np.max(np.abs(u64))) if u64.size else 0.0
    # sum|terms| of both sides: |F| * (sum_cells w dx^d ~ 1) * max|u| ; the pre-fill enters SF through the subtraction
    S = float(np.sum(np.abs(F64) * wsum)) * umax
    tol = 64 * eps * (S + pre_mag * float(np.sum(np.abs(u64))) * vol) + 1e-300
    ctx.extra["max_adjoint_err_over_tol"] = max(ctx.extra.get("max_adjoint_err_over_tol", 0.0), abs(lhs - rhs) / tol)
    if abs(lhs - rhs) > tol:
        raise Violation(f"adjoint identity broken: sum F.(I u) = {lhs!r} but sum (S F).u dx^d = {rhs!r} (tol {tol:.3e}; {kt}, {dim}-D, "
                        f"{'vector' if vec else 'scalar'}, {case['dtype']}, markers {sorted(set(labels))})")
    # (2) total force
    axes = tuple(range(-dim, 0))
    tot_grid = SF.sum(axis=axes) * vol
    tot_lag = F64.sum(axis=-1)
    tol2 = 64 * eps * (float(np.sum(np.abs(F64))) + pre_mag * vol * np.prod(shape))
    if np.any(np.abs(tot_grid - tot_lag) > tol2 + 1e-300):
        raise Violation(f"grid integral of the spread force {np.atleast_1d(tot_grid).tolist()} != total marker force {np.atleast_1d(tot_lag).tolist()}")
    # (3) Peskin: first moment about a point
    grids = np.meshgrid(*[(np.arange(s) + 0.5) * dx for s in shape], indexing="ij")
    if kt == "peskin":
        P = [case["point"][c] * shape[dim - 1 - c] * dx for c in range(dim)]
        for c in range(dim):
            xg = grids[dim - 1 - c] - P[c]
            mom_grid = (SF * xg).sum(axis=axes) * vol
            mom_lag = (F64 * (pos[c] - P[c])).sum(axis=-1)
            L = max(shape) * dx
            ceps3 = float(np.finfo(np.float64).eps) * (float(np.max(np.abs(pos))) / dx + 1.0)
            tol3 = 64 * (eps + ceps3) * L * (float(np.sum(np.abs(F64))) + pre_mag * vol * np.prod(shape)) + 1e-300
            if np.any(np.abs(mom_grid - mom_lag) > tol3):
                raise Violation(f"Peskin spreading does not preserve the first moment along axis {c}: grid {np.atleast_1d(mom_grid).tolist()} "
                                f"vs markers {np.atleast_1d(mom_lag).tolist()}")
    # (4) accumulation vs independent reference
    ref = ibm.ref_spread(F64, pos, shape, dx, kt)
    want = pre.astype(np.float64) + calls * ref
    scale = pre_mag + calls * float(np.max(np.abs(F64)) * n) / vol
    err = float(np.max(np.abs(eul.astype(np.float64) - want)))
    # the independent reference evaluates the delta function at distances that carry eps64*|X| rounding (see C06)
    ceps = float(np.finfo(np.float64).eps) * (float(np.max(np.abs(pos))) / dx + 1.0)
    tol4 = 64 * (eps + ceps) * scale + 64 * float(np.finfo(real_t).tiny)
    if err > tol4:
        i = np.unravel_index(int(np.argmax(np.abs(eul.astype(np.float64) - want))), want.shape)
        raise Violation(f"spreading does not accumulate: target {float(eul[i])!r} vs pre-fill + {calls} x reference spread {want[i]!r} at {tuple(int(q) for q in i)} "
                        f"({kt}, {case['dtype']}, markers {sorted(set(labels))})")
    # non-triviality: overlapping supports
    overlap = False
    if n >= 2:
        d = np.abs(pos[:, :, None] - pos[:, None, :]).max(axis=0)
        np.fill_diagonal(d, np.inf)
        overlap = bool(np.any(d < 4 * dx))
    ctx.note(nontrivial=overlap and pre_mag > 0,
             labels=[f"{dim}d_{kt}_{case['dtype']}_{'vec' if vec else 'sca'}", f"calls{calls}", f"markers_{n}"] + (["elongated_grid"] if max(shape) >= 100 else [])
             + (["duplicates"] if "duplicate" in labels[1:] else []) + (["same_cell"] if "same_cell" in labels[1:] else []))


PARTS = [
    Part(name="adjoint_and_accumulation", strategy=_strategy, body=_body, variants=_variants,
         examples={"quick": 800, "thorough": 16000}, shards={"quick": 16, "thorough": 16}),
]
