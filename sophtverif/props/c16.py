"""C16 - the recommended time step is stable and keeps diffusion monotone."""

from __future__ import annotations

import numpy as np
from hypothesis import strategies as st

from .. import gen, simcfg
from ..runner import Part, Violation

PROPERTY_ID = "C16"
LEVEL = "exploration"
RULE = (
    "Part stable_timestep: Hypothesis draws a simulator class (2-D NS, 3-D NS, passive 2-D/3-D scalar/vector), grid shape, "
    "precision, x_range, viscosity over 8 decades (1e-6..1e2, so nu/dx^2 spans >> 1), CFL in (0,2], prefactor in (0,1] and a "
    "velocity field in {identically zero, constant, single spike up to 2^20, noise, mixed}, followed by 0-3 further velocity "
    "fields written into the SAME simulator (optionally after a time_step); compute_stable_timestep is called after every "
    "overwrite on the real simulator: dt finite and > 0; dt(p) = p*dt(1) within 4 ulp; dt(1)*max_cells sum_c|u_c|/dx <= CFL(1+32eps); "
    "nu*dt(1)/dx^2 <= 0.9/(2d)(1+32eps); velocity array bit-identical afterwards. Part maximum_principle: for drawn "
    "lambda in (0, 0.9/(2d)] and any field the public diffusion time-step kernels (2-D, 3-D scalar, 3-D vector) are run: every "
    "interior value stays within [min,max] of its 2d+1 input neighbourhood (8 eps slack), global extrema do not grow, ring cells "
    "bit-identical. Non-trivial: (a) viscous limit active or velocity non-zero, non-cubic grid; (b) field with an interior "
    "extremum (spikes/checkerboard/noise) and lambda >= 1e-3. Distinct = digest of case."
    " Also nu = 0, the balanced regime (both limits within a drawn factor), thread counts 1..7, the maximum in the first/last flattened cells, viscosity / cfl changed on the live simulator between queries."
)
ASSUMPTIONS = ["viscosity >= 0 (inviscid nu = 0 included); velocities up to 2^20 in magnitude; finite inputs"]
BUDGET_S = {"quick": 120.0, "thorough": 1800.0}

SIMS = ["ns2d", "ns3d", "passive2d", "passive3d_scalar", "passive3d_vector"]


def _variants(tier):
    return list(SIMS)


def _dt_strategy(tier, kind):
    @st.composite
    def case(draw):
        dim = simcfg.sim_dim(kind)
        vk = draw(st.sampled_from(["zero", "constant", "spike", "noise", "mixed"]))
        vel = draw(gen.vector_field_spec(dim, kinds=[vk if vk not in ("spike",) else "spikes"], max_mag_exp=20 if vk == "spike" else 6))
        return {
            "sim": kind, "shape": draw(gen.grid_shape(dim, 5, 40 if dim == 2 else 10)), "dtype": draw(gen.precisions),
            "x_range": draw(gen.nice_or_log(1e-2, 1e2)), "nu": draw(st.one_of(gen.log_uniform(1e-6, 1e2), gen.log_uniform(1e-6, 1e2), gen.log_uniform(1e-6, 1e2), st.just(0.0))),
            # balanced regime: viscosity chosen so that the diffusive limit is this multiple of the advective limit of the first
            # velocity field (None: independent viscosity) - the two limits cross within the drawn window
            "nu_balance": draw(st.one_of(st.none(), st.none(), gen.floats(0.25, 4.0, 32))),
            # the largest velocity sits in one of the first / last cells of the flattened array (remainder cells of any chunked or
            # blocked reduction): [component, flat index (negative: from the end), magnitude exponent] or None
            "tail_spike": draw(st.one_of(st.none(), st.tuples(st.integers(0, dim - 1), st.sampled_from([-1, -1, -2, -2, -3, -4, -6, -12, 0, 0, 1, 2, 5, 11]), st.integers(0, 12)).map(list))),
            "threads": draw(st.sampled_from([2, 2, 1, 3, 4, 5, 7])),
            "cfl": draw(gen.floats(0.01, 2.0, 32)), "prefac": draw(gen.floats(0.01, 1.0, 32)), "velocity": vel, "vkind": vk,
            # history on the SAME simulator object: the velocity is overwritten between queries (as every flow step does),
            # optionally with a time step in between
            "later": draw(st.lists(st.fixed_dictionaries({
                "velocity": gen.vector_field_spec(dim, kinds=["zero", "constant", "spikes", "noise", "mixed"], max_mag_exp=12),
                "step_first": st.booleans(),
                # a parameter sweep on the live object: the public attributes time_step() reads are changed before the query
                "set_nu": st.one_of(st.none(), st.none(), gen.log_uniform(1e-6, 1e2)),
                "set_cfl": st.one_of(st.none(), st.none(), gen.floats(0.01, 2.0, 32))}), min_size=0, max_size=3)),
        }

    return case()


def _dt_body(case, ctx):
    import sopht.simulator as sps

    kind = case["sim"]
    dim = simcfg.sim_dim(kind)
    real_t = gen.np_dtype(case["dtype"])
    eps = float(np.finfo(real_t).eps)
    shape = tuple(case["shape"])
    if case.get("nu_balance") is not None:
        u_first = gen.build_vector_field(case["velocity"], shape, real_t).astype(np.float64)
        um = float(np.max(np.sum(np.abs(u_first), axis=0)))
        if um > 0:
            dx0 = float(case["x_range"]) / shape[-1]
            case = dict(case, nu=0.9 * dx0 * um / (2 * dim * case["cfl"]) / float(case["nu_balance"]))
            ctx.note(labels=["limits_balanced"])
    kw = dict(grid_size=shape, x_range=case["x_range"], kinematic_viscosity=case["nu"], cfl=case["cfl"], real_t=real_t, num_threads=case.get("threads", 2))
    with ctx.repo_call(f"constructing {kind}"):
        if kind == "ns2d":
            sim = sps.UnboundedNavierStokesFlowSimulator2D(penalty_zone_width=0, **kw)
        elif kind == "ns3d":
            sim = sps.UnboundedNavierStokesFlowSimulator3D(penalty_zone_width=0, **kw)
        else:
            sim = sps.PassiveTransportFlowSimulator(grid_dim=dim, field_type="vector" if kind.endswith("vector") else "scalar", **kw)
    rounds = [{"velocity": case["velocity"], "step_first": False}] + list(case.get("later", []))
    dx = float(sim.dx)
    lim = 0.9 / (2 * dim)
    dif = 0.0
    umax = 0.0
    for ri, rnd in enumerate(rounds):
        if rnd["step_first"] and ri > 0:
            # advance the simulator (changes time and, for Navier-Stokes, recomputes the velocity) before the next query
            with ctx.repo_call("time_step"):
                sim.time_step(dt=float(dt1f) * 0.5)
        if rnd.get("set_nu") is not None:
            sim.kinematic_viscosity = float(rnd["set_nu"])
            case = dict(case, nu=float(rnd["set_nu"]))
            ctx.note(labels=["viscosity_changed_on_live_simulator"])
        if rnd.get("set_cfl") is not None:
            sim.cfl = float(rnd["set_cfl"])
            case = dict(case, cfl=float(rnd["set_cfl"]))
            ctx.note(labels=["cfl_changed_on_live_simulator"])
        sim.velocity_field[...] = gen.build_vector_field(rnd["velocity"], shape, real_t)
        if case.get("tail_spike") is not None:
            c_, i_, e_ = case["tail_spike"]
            flat = sim.velocity_field[c_].reshape(-1)
            flat[max(-flat.size, min(flat.size - 1, i_))] = real_t(-(2.0 ** e_) * (1.0 + float(np.max(np.abs(flat)))))
        u0 = sim.velocity_field.copy()
        with ctx.repo_call("compute_stable_timestep"):
            dt1 = sim.compute_stable_timestep()
            dtp = sim.compute_stable_timestep(dt_prefac=case["prefac"])
        if sim.velocity_field.tobytes() != u0.tobytes():
            raise Violation("compute_stable_timestep modified the velocity field")
        dt1f, dtpf = float(dt1), float(dtp)
        where = f"(query {ri + 1} of {len(rounds)} on the same simulator, nu {case['nu']:.3g}, {kind}, {case['dtype']})"
        if not (np.isfinite(dt1f) and dt1f > 0 and np.isfinite(dtpf) and dtpf > 0):
            raise Violation(f"stable time step not finite/positive: dt(1)={dt1!r} dt(p)={dtp!r} {where}")
        if abs(dtpf - case["prefac"] * dt1f) > 4 * eps * abs(case["prefac"] * dt1f):
            raise Violation(f"time step not linear in the prefactor: dt({case['prefac']})={dtp!r}, p*dt(1)={case['prefac'] * dt1f!r} {where}")
        umax = float(np.max(np.sum(np.abs(u0.astype(np.float64)), axis=0)))
        adv = dt1f * umax / dx
        if adv > case["cfl"] * (1 + 32 * eps):
            raise Violation(f"advective limit exceeded: dt*max|u|_1/dx = {adv!r} > CFL {case['cfl']!r} {where}")
        dif = case["nu"] * dt1f / dx**2
        if dif > lim * (1 + 32 * eps):
            raise Violation(f"diffusive limit exceeded: nu*dt/dx^2 = {dif!r} > 0.9/(2d) = {lim!r} by a factor {dif / lim:.6f} {where}")
    ctx.note(labels=[f"queries_{len(rounds)}", f"threads_{case.get('threads', 2)}"] + (["peak_in_first_or_last_cells"] if case.get("tail_spike") else []))
    viscous_active = dif > 0.5 * lim
    ctx.note(nontrivial=(viscous_active or umax > 0) and len(set(shape)) > 1,
             labels=[kind, case["dtype"], "velocity_" + case["vkind"], "viscous_limit_active" if viscous_active else "advective_limit_active"])


# ------------------------------------------------------------------------------------------------

DIFF = ["dif2d", "dif3d_scalar", "dif3d_vector"]
_K = {}


def _mp_variants(tier):
    return list(DIFF)


def _mp_strategy(tier, name):
    @st.composite
    def case(draw):
        dim = 2 if name == "dif2d" else 3
        return {"kernel": name, "shape": draw(gen.grid_shape(dim, 3, 24 if dim == 2 else 9, long_axis=70 if dim == 2 else 40)), "dtype": draw(gen.precisions),
                "threads": draw(st.sampled_from([False, 1, 2])),
                "field": draw(gen.vector_field_spec(3, kinds=["spikes", "checker", "noise", "mixed", "bumps", "poly", "constant"], max_mag_exp=8)),
                "lam_frac": draw(st.one_of(st.just(1.0), st.just(0.0), gen.floats(0.001, 1.0, 32), gen.floats(0.001, 1.0, 32)))}

    return case()


def _mp_body(case, ctx):
    import sopht.numeric.eulerian_grid_ops as spne

    name = case["kernel"]
    dim = 2 if name == "dif2d" else 3
    real_t = gen.np_dtype(case["dtype"])
    eps = float(np.finfo(real_t).eps)
    shape = tuple(case["shape"])
    key = (name, case["dtype"], case["threads"])
    if key not in _K:
        with ctx.repo_call(f"generating {name}"):
            if dim == 2:
                _K[key] = spne.gen_diffusion_timestep_euler_forward_pyst_kernel_2d(real_t=real_t, num_threads=case["threads"])
            else:
                _K[key] = spne.gen_diffusion_timestep_euler_forward_pyst_kernel_3d(real_t=real_t, num_threads=case["threads"],
                                                                                   field_type=name.split("_")[1])
    k = _K[key]
    vec = name.endswith("vector")
    f = gen.build_vector_field(case["field"][: 3 if vec else 1], shape, real_t)
    f0 = f.copy()
    # largest working-precision number not above 0.9/(2d) * frac
    lam = real_t(case["lam_frac"] * 0.9 / (2 * dim))
    if float(lam) > 0.9 / (2 * dim):
        lam = np.nextafter(lam, real_t(0))
    flux = np.full(shape, 3.0e7, dtype=real_t)
    with ctx.repo_call(f"{name} diffusion step"):
        if vec:
            k(vector_field=f, diffusion_flux=flux, nu_dt_by_dx2=lam)
        else:
            k(field=f[0], diffusion_flux=flux, nu_dt_by_dx2=lam)
    inner = (slice(1, -1),) * dim
    for c in range(f.shape[0]):
        a, b = f0[c].astype(np.float64), f[c].astype(np.float64)
        ring = np.ones(shape, dtype=bool)
        if all(n > 2 for n in shape):
            ring[inner] = False
        if f[c][ring].tobytes() != f0[c][ring].tobytes() and not np.array_equal(f[c][ring], f0[c][ring]):  # sign of zero aside
            raise Violation(f"{name}: boundary-ring cells changed by the diffusion step")
        if not all(n > 2 for n in shape):
            continue
        lo, hi = a.copy(), a.copy()
        for ax in range(dim):
            lo = np.minimum(lo, np.minimum(np.roll(a, 1, ax), np.roll(a, -1, ax)))
            hi = np.maximum(hi, np.maximum(np.roll(a, 1, ax), np.roll(a, -1, ax)))
        slack = 8 * eps * float(np.max(np.abs(a))) + 16 * float(np.finfo(real_t).tiny)
        if np.any(b[inner] < lo[inner] - slack) or np.any(b[inner] > hi[inner] + slack) or not np.all(np.isfinite(b)):
            over = np.maximum(lo[inner] - b[inner], b[inner] - hi[inner])
            i = np.unravel_index(int(np.argmax(over)), over.shape)
            raise Violation(f"{name}: diffusion step with nu*dt/dx^2 = {float(lam)!r} created a new extremum at interior cell {tuple(int(q) + 1 for q in i)} "
                            f"(value {b[inner][i]!r}, neighbourhood [{lo[inner][i]!r}, {hi[inner][i]!r}])")
        if b.max() > a.max() + slack or b.min() < a.min() - slack:
            raise Violation(f"{name}: global extrema grew under diffusion")
    kinds = {s["kind"] for s in case["field"][: 3 if vec else 1]}
    ctx.note(nontrivial=bool(kinds & {"spikes", "checker", "noise", "mixed"}) and case["lam_frac"] >= 1e-3,
             labels=[name, case["dtype"], "lambda_at_limit" if case["lam_frac"] == 1.0 else "lambda_below_limit"])


PARTS = [
    Part(name="stable_timestep", strategy=_dt_strategy, body=_dt_body, variants=_variants,
         examples={"quick": 500, "thorough": 10000}, shards={"quick": 5, "thorough": 15}),
    Part(name="maximum_principle", strategy=_mp_strategy, body=_mp_body, variants=_mp_variants,
         examples={"quick": 600, "thorough": 12000}, shards={"quick": 3, "thorough": 9}),
]
