"""Independent oracles for the Poisson solvers (written from the documented formulae)."""

from __future__ import annotations

import numpy as np
from scipy import signal


def greens_separation_kernel(shape, dx: float) -> np.ndarray:
    """Free-space Green's function of -Laplacian sampled at all cell separations.

    Returns an array of shape (2n-1, ...) whose centre is the self term:
    2-D: -ln r / 2pi, self term -(2 ln(dx/sqrt(pi)) - 1)/4pi ; 3-D: 1/(4 pi r), self 1/(4 pi dx).
    """
    dim = len(shape)
    idx = [np.arange(-(n - 1), n, dtype=np.float64) for n in shape]
    grids = np.meshgrid(*idx, indexing="ij")
    r = float(dx) * np.sqrt(sum(g * g for g in grids))
    centre = tuple(n - 1 for n in shape)
    r[centre] = 1.0
    if dim == 2:
        g = -np.log(r) / (2.0 * np.pi)
        g[centre] = -(2.0 * np.log(float(dx) / np.sqrt(np.pi)) - 1.0) / (4.0 * np.pi)
    elif dim == 3:
        g = 1.0 / (4.0 * np.pi * r)
        g[centre] = 1.0 / (4.0 * np.pi * float(dx))
    else:
        raise ValueError(dim)
    return g


def free_space_solve(rhs: np.ndarray, dx: float, kernel: np.ndarray | None = None) -> np.ndarray:
    """u_i = dx^d sum_j G(|i-j| dx) f_j by direct (O(N^2)) aperiodic convolution, float64."""
    f = np.asarray(rhs, dtype=np.float64)
    shape = f.shape
    g = greens_separation_kernel(shape, dx) if kernel is None else kernel
    full = signal.convolve(f, g, mode="full", method="direct")
    sl = tuple(slice(n - 1, 2 * n - 1) for n in shape)
    return full[sl] * float(dx) ** len(shape)


def free_space_solve_fft(rhs: np.ndarray, dx: float) -> np.ndarray:
    """Same convolution through scipy's own FFT path (float64); used where O(N^2) is too slow."""
    f = np.asarray(rhs, dtype=np.float64)
    shape = f.shape
    g = greens_separation_kernel(shape, dx)
    full = signal.fftconvolve(f, g, mode="full")
    sl = tuple(slice(n - 1, 2 * n - 1) for n in shape)
    return full[sl] * float(dx) ** len(shape)


def neumann_neg_laplacian(u: np.ndarray, dx: float) -> np.ndarray:
    """Second-order FD negative Laplacian with homogeneous Neumann at the faces (edge replication)."""
    u = np.asarray(u, dtype=np.float64)
    out = np.zeros_like(u)
    for ax in range(u.ndim):
        up = np.pad(u, [(1, 1) if a == ax else (0, 0) for a in range(u.ndim)], mode="edge")
        sl_c = [slice(None)] * u.ndim
        sl_p = [slice(None)] * u.ndim
        sl_m = [slice(None)] * u.ndim
        sl_c[ax] = slice(1, -1)
        sl_p[ax] = slice(2, None)
        sl_m[ax] = slice(0, -2)
        out += (2 * up[tuple(sl_c)] - up[tuple(sl_p)] - up[tuple(sl_m)])
    return out / float(dx) ** 2


def neumann_solve_dct(rhs: np.ndarray, dx: float) -> np.ndarray:
    """Zero-mean solution of the discrete Neumann problem via DCT-II diagonalisation (float64)."""
    from scipy.fft import dctn, idctn

    f = np.asarray(rhs, dtype=np.float64)
    fh = dctn(f, type=2, norm="ortho")
    lam = np.zeros(f.shape)
    for ax, n in enumerate(f.shape):
        k = np.arange(n)
        ev = (2.0 - 2.0 * np.cos(np.pi * k / n)) / float(dx) ** 2
        sh = [1] * f.ndim
        sh[ax] = n
        lam = lam + ev.reshape(sh)
    zero = tuple(0 for _ in f.shape)
    lam[zero] = 1.0
    uh = fh / lam
    uh[zero] = 0.0
    return idctn(uh, type=2, norm="ortho")
