#!/venv/bin/python
"""Merge the dumps of sophtverif.covprobe and list functions of sopht/ that no check entered.

  SOPHTVERIF_COV=/tmp/cov tools/run_all.sh quick 1 ; tools/cov_report.py /tmp/cov
"""
import ast, glob, json, os, sys

d = sys.argv[1]
hit = set()
for f in glob.glob(os.path.join(d, "*.json")):
    hit |= {tuple(x) for x in json.load(open(f))}
import sopht  # noqa: E402

root = os.path.dirname(os.path.abspath(sopht.__file__)) + os.sep
tot_f = hit_f = 0
rows = []
for dp, _, fs in os.walk(root):
    for fn in fs:
        if not fn.endswith(".py"):
            continue
        path = os.path.join(dp, fn)
        rel = path[len(root):]
        tree = ast.parse(open(path).read())
        for node in ast.walk(tree):
            if isinstance(node, (ast.FunctionDef, ast.AsyncFunctionDef)):
                body_lines = {n.lineno for b in node.body for n in ast.walk(b) if hasattr(n, "lineno")}
                # docstring line does not count
                if node.body and isinstance(node.body[0], ast.Expr) and isinstance(getattr(node.body[0], "value", None), ast.Constant):
                    body_lines -= {n.lineno for n in ast.walk(node.body[0]) if hasattr(n, "lineno")}
                if not body_lines:
                    continue
                tot_f += 1
                got = {l for l in body_lines if (rel, l) in hit}
                if got:
                    hit_f += 1
                rows.append((rel, node.lineno, node.name, len(got), len(body_lines)))
print(f"functions entered: {hit_f}/{tot_f}")
print("never entered:")
for rel, ln, name, g, n in sorted(rows):
    if g == 0:
        print(f"  {rel}:{ln} {name} ({n} lines)")
print("partially covered (<60% of lines):")
for rel, ln, name, g, n in sorted(rows):
    if 0 < g < 0.6 * n and n >= 5:
        print(f"  {rel}:{ln} {name} {g}/{n}")
