#!/usr/bin/env python3
"""Regenerate MUTATION_RESULTS.md from mutants/results_raw.jsonl (append tools/mut.py output lines there)."""
import json, os, sys
HERE = os.path.dirname(os.path.dirname(os.path.abspath(__file__)))
sys.path.insert(0, HERE)
from mutants.registry import MUTANTS

rows = [json.loads(l) for l in open(os.path.join(HERE, "mutants", "results_raw.jsonl")) if l.startswith("{")]
last = {}
for r in rows:
    last[(r["mutant"], r["prop"])] = r
notes = {m["id"]: m.get("note", "") for m in MUTANTS}
out = ["# Sensitivity protocol results (tools/mut.py, quick tier, seed 1)\n",
       "Each mutant is a realistic single-site (occasionally two-site) change applied to a scratch copy of `sopht/` selected through "
       "`PYTHONPATH` (never to /repo); the quick check of the listed property must exit 1 with a VIOLATION line. Rows with "
       "`detected = NO` are analysed at the end. The latest run of each (mutant, property) pair is shown.\n",
       "| mutant | property | detected | wall s | first message | what the mutant does |", "|---|---|---|---|---|---|"]
for (mid, prop), r in sorted(last.items(), key=lambda kv: (kv[0][1], kv[0][0])):
    msg = r["msg"].strip().replace("|", "/")[:110]
    out.append(f"| {mid} | {prop} | {'yes' if r['violation'] else 'NO'} | {r['wall_s']} | {msg} | {notes.get(mid, '')} |")
det = sum(1 for r in last.values() if r["violation"])
out.append(f"\n{det} of {len(last)} (mutant, property) pairs detected.\n")
out.append(open(os.path.join(HERE, "mutants", "ANALYSIS.md")).read())
open(os.path.join(HERE, "MUTATION_RESULTS.md"), "w").write("\n".join(out))
print(det, len(last))
