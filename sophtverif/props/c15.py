"""C15 - results do not depend on thread count or iteration order."""

from __future__ import annotations

import inspect

import numpy as np
from hypothesis import strategies as st

from .. import capture, gen, kernels, simcfg
from ..interp import iteration_cells, run_in_order
from ..runner import Part, Violation

PROPERTY_ID = "C15"
LEVEL = "exploration"
RULE = (
    "Part kernel_dependence (complete enumeration of the kernels generated in this run: every public generator x "
    "option combination, the kernels compiled by the Poisson solvers, the simulators and VirtualBoundaryForcing): "
    "from the captured IR every written access has zero offset, every read of a written field has zero offset, no "
    "two assignments write the same field. Part call_site_aliasing: Hypothesis draws simulator configurations / "
    "solver / filter / SSP-RK3 / interaction scenarios and states; a call monitor inspects EVERY kernel invocation: "
    "a written array may share memory with another bound array only if that array is the identical view and the IR "
    "reads it at offset 0; two written arrays never overlap; the invocation is then replayed by an order-controlled "
    "interpreter on aliasing-preserving copies in two drawn cell permutations (forward/reverse/random) and must be "
    "bit-identical. Lagrangian-to-Eulerian spreading kernels must be serial marker loops (no prange, parallel "
    "target option off). Part thread_counts: identical inputs are run with OpenMP thread counts drawn from "
    "{1,2,3,5,8,16} (kernels, full steps of all simulator classes, interactions) and must be bit-identical (FFTW "
    "pinned to one thread + FFTW_ESTIMATE by the harness so that only SophT's kernels vary). Non-trivial: >= 2 "
    "different thread counts with grid rows >= 2*threads (c), an in-place kernel call monitored (b). "
    "Distinct = digest of the case."
)
ASSUMPTIONS = [
    "real thread interleavings are sampled, not enumerated; the decision rests on the IR dependence rules, the call-site "
    "aliasing monitor and harness-owned iteration orders",
    "races inside pystencils/OpenMP/FFTW themselves are outside the claim; the no-OpenMP build (num_threads=False) is a "
    "different translation unit and is compared with 4 ulp tolerance only",
]
BUDGET_S = {"quick": 170.0, "thorough": 3000.0}


# ------------------------------------------------------------------------------------------------
# (a) dependence structure
# ------------------------------------------------------------------------------------------------


def _build_everything(ctx=None):
    import sopht.numeric.eulerian_grid_ops as spne
    import sopht.simulator as sps
    from sopht.numeric.immersed_boundary_ops import VirtualBoundaryForcing

    errs = {}
    for real_t in (np.float64, np.float32):
        _, e = kernels.build_all(real_t, 2)
        errs.update(e)
    spne.UnboundedPoissonSolverPYFFTW2D(grid_size_y=4, grid_size_x=6, x_range=1.0, num_threads=2)
    spne.UnboundedPoissonSolverPYFFTW3D(grid_size_z=4, grid_size_y=5, grid_size_x=6, x_range=1.0, num_threads=2)
    sps.UnboundedNavierStokesFlowSimulator2D(grid_size=(8, 10), x_range=1.0, kinematic_viscosity=1e-2, num_threads=2,
                                             with_forcing=True, with_free_stream_flow=True)
    for ft in ("multiplicative", "convolution"):
        sps.UnboundedNavierStokesFlowSimulator3D(grid_size=(6, 7, 8), x_range=1.0, kinematic_viscosity=1e-2, num_threads=2,
                                                 with_forcing=True, with_free_stream_flow=True, filter_vorticity=True,
                                                 filter_setting_dict={"order": 2, "type": ft})
    sps.PassiveTransportFlowSimulator(kinematic_viscosity=1e-2, grid_dim=2, grid_size=(8, 10), x_range=1.0, num_threads=2)
    sps.PassiveTransportFlowSimulator(kinematic_viscosity=1e-2, grid_dim=3, grid_size=(6, 7, 8), x_range=1.0, num_threads=2,
                                      field_type="vector")
    for d in (2, 3):
        VirtualBoundaryForcing(1.0, 1.0, d, 0.1, 3, np.float64, num_threads=2)
    return errs


def _dep_cases(tier):
    return [{"enumerate": "all kernels generated in this run"}]


def check_record_dependence(rec):
    written = {}
    for a in rec.assignments:
        name = a.lhs.field.name
        if any(int(o) != 0 for o in a.lhs.offsets):
            return f"kernel {rec.name} writes {name} at non-zero offset {tuple(int(o) for o in a.lhs.offsets)}"
        if name in written:
            return f"kernel {rec.name} has two assignments writing field {name}"
        written[name] = True
    for is_w, name, offs in rec.accesses():
        if not is_w and name in written and any(o != 0 for o in offs):
            return f"kernel {rec.name} reads its own output field {name} at neighbour offset {offs}"
    return None


def _dep_body(case, ctx):
    with ctx.repo_call("building every kernel generator / solver / simulator"):
        errs = _build_everything()
    if errs:
        k, e = next(iter(errs.items()))
        raise Violation(f"kernel generator {k[0]}{dict(k[1])} raised {type(e).__name__}: {e}")
    n = 0
    names = set()
    for rec in capture.RECORDS:
        msg = check_record_dependence(rec)
        if msg:
            raise Violation(msg)
        n += 1
        names.add(rec.name)
    ctx.extra["kernels_enumerated"] = n
    ctx.extra["distinct_stencil_functions"] = len(names)
    ctx.note(nontrivial=True, labels=[f"kernels_{n}"])
    # spreading is a serial marker loop
    from sopht.numeric.immersed_boundary_ops import (EulerianLagrangianGridCommunicator2D,
                                                     EulerianLagrangianGridCommunicator3D)

    for cls, d in ((EulerianLagrangianGridCommunicator2D, 2), (EulerianLagrangianGridCommunicator3D, 3)):
        for nc in (1, d):
            com = cls(dx=0.1, eul_grid_coord_shift=0.05, num_lag_nodes=3, interp_kernel_width=2, real_t=np.float64,
                      n_components=nc)
            kern = com.lagrangian_to_eulerian_grid_interpolation_kernel
            opts = getattr(kern, "targetoptions", {})
            if opts.get("parallel", False):
                raise Violation(f"{d}-D spreading kernel is compiled with parallel=True (accumulation order not fixed)")
            src = inspect.getsource(kern.py_func)
            code_lines = [ln for ln in src.splitlines() if not ln.strip().startswith("#")]
            if any("prange" in ln for ln in code_lines):
                raise Violation(f"{d}-D spreading kernel iterates markers with prange (accumulation order not fixed)")


# ------------------------------------------------------------------------------------------------
# (b) call-site aliasing monitor + permuted replay
# ------------------------------------------------------------------------------------------------


def _ptr(a):
    return a.__array_interface__["data"][0]


def _same_view(a, b):
    return _ptr(a) == _ptr(b) and a.shape == b.shape and a.strides == b.strides and a.dtype == b.dtype


def _root(a):
    b = a
    while isinstance(getattr(b, "base", None), np.ndarray):
        b = b.base
    return b


def _alias_preserving_copy(arrays: dict):
    roots = {}
    out = {}
    for name, a in arrays.items():
        r = _root(a)
        if not r.flags.c_contiguous and not r.flags.f_contiguous:
            r = np.ascontiguousarray(r)
        if id(r) not in roots:
            roots[id(r)] = (r, np.frombuffer(r.tobytes(order="A"), dtype=np.uint8).copy())
        r0, buf = roots[id(r)]
        off = _ptr(a) - _ptr(r0)
        if off < 0 or off + 1 > buf.size + 1:
            out[name] = a.copy()
            continue
        out[name] = np.ndarray(shape=a.shape, dtype=a.dtype, buffer=buf, offset=off, strides=a.strides)
    return out


class Monitor:
    def __init__(self, ctx, perm_seed, replay_budget=40, max_cells=400):
        self.ctx = ctx
        self.rng = np.random.Generator(np.random.Philox(key=int(perm_seed)))
        self.calls = 0
        self.inplace_calls = 0
        self.replayed = 0
        self.replay_budget = replay_budget
        self.max_cells = max_cells
        self.seen = set()
        self.error = None

    def __call__(self, phase, rec, kwargs):
        if phase != "pre" or self.error is not None:
            return
        try:
            self._inspect(rec, kwargs)
        except Violation as v:
            self.error = v

    def _inspect(self, rec, kwargs):
        self.calls += 1
        arrays = {k: v for k, v in kwargs.items() if isinstance(v, np.ndarray)}
        scalars = {k: v for k, v in kwargs.items() if not isinstance(v, np.ndarray)}
        written = rec.written_fields()
        acc = rec.accesses()
        for i, w in enumerate(written):
            W = arrays[w]
            for w2 in written[i + 1:]:
                if np.shares_memory(W, arrays[w2]):
                    raise Violation(f"kernel {rec.name}: two written arrays ({w}, {w2}) share memory at a call site")
            for r, R in arrays.items():
                if r == w or not np.shares_memory(W, R):
                    continue
                self.inplace_calls += 1
                if not _same_view(W, R):
                    raise Violation(f"kernel {rec.name}: output '{w}' and input '{r}' are different but overlapping views "
                                    f"(shapes {W.shape}/{R.shape}, strides {W.strides}/{R.strides})")
                if any((not isw) and name == r and any(o != 0 for o in offs) for isw, name, offs in acc):
                    raise Violation(f"kernel {rec.name}: output '{w}' aliases input '{r}' which is read at a neighbour offset")
        # permuted replay of this very invocation
        sig = (rec.name, tuple(sorted((k, tuple(sorted(q for q in arrays if q != k and np.shares_memory(arrays[k], arrays[q]))))
                                      for k in arrays)))
        any_arr = next(iter(arrays.values()))
        if self.replayed >= self.replay_budget or any_arr.size > self.max_cells:
            return
        if sig in self.seen and self.rng.random() > 0.1:
            return
        self.seen.add(sig)
        cells = iteration_cells(rec, arrays[written[0]].shape)
        if not cells:
            return
        orders = [cells, cells[::-1], [cells[i] for i in self.rng.permutation(len(cells))]]
        pick = self.rng.permutation(3)[:2]
        results = []
        for oi in pick:
            cp = _alias_preserving_copy(arrays)
            with np.errstate(all="ignore"):
                run_in_order(rec, cp, scalars, orders[int(oi)])
            results.append({w: cp[w].tobytes() for w in written})
        self.replayed += 1
        if results[0] != results[1]:
            raise Violation(f"kernel {rec.name}: result depends on the cell iteration order at this call site "
                            f"(orders {['forward', 'reverse', 'random'][int(pick[0])]} vs {['forward', 'reverse', 'random'][int(pick[1])]})")


SCENARIOS = ["ns2d", "ns3d", "passive2d", "passive3d_scalar", "passive3d_vector", "poisson2d", "poisson3d",
             "filter", "ssprk3", "interaction2d", "interaction3d", "coupled_bodies2d"]


def _scenario_variants(tier):
    return list(SCENARIOS)


def _alias_strategy(tier, sc):
    @st.composite
    def case(draw):
        c = {"scenario": sc, "perm_seed": draw(st.integers(0, 2**31 - 1)),
             "fields": draw(st.lists(gen.field_spec(kinds=["noise", "mixed", "poly", "bumps"], max_mag_exp=3), min_size=9, max_size=9)),
             "dtype": draw(gen.precisions)}
        if sc in simcfg.SIM_KINDS:
            c["cfg"] = draw(simcfg.ns_config(tier, kinds=[sc], widths=(0, 2), n_max={2: 10, 3: 7},
                                             n_min_fn=lambda cf: max(5, 2 * cf["width"] + 1)))
            c["cfg"]["dtype"] = c["dtype"]
            c["dt_frac"] = draw(gen.floats(0.1, 1.0, 32))
        else:
            d = 2 if sc.endswith("2d") else 3
            c["shape"] = draw(gen.grid_shape(d, 5, 9 if d == 2 else 6))
            c["order"] = draw(st.sampled_from([1, 2, 3, 3, 4, 5]))  # the shipped examples use order 5
            c["ftype"] = draw(st.sampled_from(["multiplicative", "convolution"]))
            c["vector"] = draw(st.booleans())
            c["reset"] = draw(st.booleans())
            c["n_markers"] = draw(st.sampled_from([1, 3, 7]))
            c["marker_pos"] = draw(st.lists(gen.floats(0.0, 1.0, 32), min_size=21, max_size=21))
        return c

    return case()


def _run_scenario(case, ctx, threads=2):
    """Builds the scenario and returns (callable_that_runs_it, dict_of_observable_arrays)."""
    import sopht.numeric.eulerian_grid_ops as spne
    from sopht.numeric.immersed_boundary_ops import VirtualBoundaryForcing

    sc = case["scenario"]
    real_t = gen.np_dtype(case["dtype"])
    F = case["fields"]
    if sc in simcfg.SIM_KINDS:
        cfg = dict(case["cfg"])
        sim = simcfg.build_sim(cfg, num_threads=threads)
        shape = tuple(cfg["shape"])
        dim = simcfg.sim_dim(sc)
        prim = simcfg.primary_field_of(sim, cfg)
        pf = gen.build_vector_field(F[:3], shape, real_t)
        prim[...] = pf[0] if prim.ndim == dim else pf[: prim.shape[0]]
        sim.velocity_field[...] = gen.build_vector_field(F[3:3 + dim], shape, real_t)
        if sc.startswith("ns") and cfg["with_forcing"]:
            sim.eul_grid_forcing_field[...] = gen.build_vector_field(F[6:6 + dim], shape, real_t)
        umax = float(np.max(np.sum(np.abs(sim.velocity_field.astype(np.float64)), axis=0)))
        dt = simcfg.stable_dt(cfg, float(sim.dx), umax, case["dt_frac"])

        def run():
            if sc.startswith("ns"):
                sim.time_step(dt=dt, free_stream_velocity=np.array([0.5, -0.25, 0.125][:dim]))
            else:
                sim.time_step(dt=dt)
            qbox[0] = float(sim.compute_stable_timestep())

        # vorticity / primary depends only on SophT kernels; velocity also on the FFT; the stable-step query reduces the velocity
        # field with max(), which is exact in any order, so its value may not depend on the thread count either
        qbox = np.zeros(1)
        obs = {"primary": prim, "velocity": sim.velocity_field, "stable_timestep_query": qbox}
        return run, obs
    shape = tuple(case["shape"])
    dim = len(shape)
    if sc.startswith("poisson"):
        if dim == 2:
            sol = spne.UnboundedPoissonSolverPYFFTW2D(grid_size_y=shape[0], grid_size_x=shape[1], x_range=1.0,
                                                      num_threads=threads, real_t=real_t)
        else:
            sol = spne.UnboundedPoissonSolverPYFFTW3D(grid_size_z=shape[0], grid_size_y=shape[1], grid_size_x=shape[2],
                                                      x_range=1.0, num_threads=threads, real_t=real_t)
        rhs = gen.build_field(F[0], shape, real_t)
        out = np.zeros(shape, dtype=real_t)
        return (lambda: sol.solve(solution_field=out, rhs_field=rhs)), {"solution": out}
    if sc == "filter":
        buf = np.zeros((2, *shape), dtype=real_t)
        ft = "vector" if case["vector"] else "scalar"
        k = spne.gen_laplacian_filter_kernel_3d(filter_order=case["order"], filter_flux_buffer=buf[0], field_buffer=buf[1],
                                                real_t=real_t, num_threads=threads, field_type=ft, filter_type=case["ftype"])
        if case["vector"]:
            f = gen.build_vector_field(F[:3], shape, real_t)
            return (lambda: k(vector_field=f)), {"field": f}
        f = gen.build_field(F[0], shape, real_t)
        return (lambda: k(scalar_field=f)), {"field": f}
    if sc == "ssprk3":
        mid = np.zeros((3, *shape), dtype=real_t)
        k = spne.gen_vorticity_stretching_timestep_ssprk3_pyst_kernel_3d(real_t=real_t, midstep_buffer_vector_field=mid,
                                                                         num_threads=threads)
        w = gen.build_vector_field(F[:3], shape, real_t)
        u = gen.build_vector_field(F[3:6], shape, real_t)
        fl = np.zeros_like(w)
        return (lambda: k(vorticity_field=w, velocity_field=u, vorticity_stretching_flux_field=fl, dt_by_2_dx=0.05)), {"vorticity": w}
    if sc == "coupled_bodies2d":
        # two rigid bodies coupled to one flow through the public interaction classes, which are handed the thread count
        import sopht.simulator.immersed_body as spi
        from .. import bodies as _bodies

        dx = 0.0625
        gshape = (28, 32)
        eul_u = gen.build_vector_field(F[:2], gshape, real_t)
        eul_f = gen.build_vector_field(F[3:5], gshape, real_t)
        inters = []
        for bi in range(2):
            body = _bodies.make_rigid("cylinder2d", {"radius": 0.2 + 0.05 * bi, "length": 0.5, "breadth": 0.5})
            body.position_collection[:, 0] = [0.6 + 0.7 * bi + 0.1 * case["marker_pos"][bi], 0.8 + 0.1 * case["marker_pos"][2 + bi], 0.0]
            body.velocity_collection[:, 0] = [0.3 * case["marker_pos"][4 + bi], -0.2, 0.0]
            body.omega_collection[:, 0] = [0.0, 0.0, 1.0 + bi]
            inters.append(spi.RigidBodyFlowInteraction(
                rigid_body=body, eul_grid_forcing_field=eul_f, eul_grid_velocity_field=eul_u, virtual_boundary_stiffness_coeff=-50.0,
                virtual_boundary_damping_coeff=-2.0, dx=real_t(dx), grid_dim=2, real_t=real_t, num_threads=threads,
                forcing_grid_cls=spi.CircularCylinderForcingGrid, num_forcing_points=33))

        def run():
            for it in inters:
                it()
            for it in inters:
                it.time_step(dt=0.01)
            for it in inters:
                it()

        return run, {"eul_forcing": eul_f, "lag_forcing_0": inters[0].lag_grid_forcing_field, "lag_forcing_1": inters[1].lag_grid_forcing_field}
    if sc.startswith("interaction"):
        n = case["n_markers"]
        dx = 0.1
        vbf = VirtualBoundaryForcing(2.0, 0.5, dim, dx, n, real_t, enable_eul_grid_forcing_reset=case["reset"],
                                     num_threads=threads)
        gshape = tuple(max(s, 8) for s in shape)
        lo = 2.5 * dx
        ext = [(s - 5) * dx for s in gshape[::-1]]
        pos = np.array([[lo + case["marker_pos"][(c * 7 + i) % 21] * ext[c] for i in range(n)] for c in range(dim)])
        vel = np.zeros((dim, n))
        eul_u = gen.build_vector_field(F[:dim], gshape, real_t)
        eul_f = gen.build_vector_field(F[3:3 + dim], gshape, real_t)

        def run():
            vbf.compute_interaction_forcing(eul_grid_forcing_field=eul_f, eul_grid_velocity_field=eul_u,
                                            lag_grid_position_field=pos, lag_grid_velocity_field=vel)
            vbf.time_step(0.01)
            vbf.compute_interaction_forcing(eul_grid_forcing_field=eul_f, eul_grid_velocity_field=eul_u,
                                            lag_grid_position_field=pos, lag_grid_velocity_field=vel)

        return run, {"eul_forcing": eul_f, "lag_forcing": vbf.lag_grid_forcing_field}
    raise ValueError(sc)


def _alias_body(case, ctx):
    with ctx.repo_call(f"building scenario {case['scenario']}"):
        run, obs = _run_scenario(case, ctx)
    mon = Monitor(ctx, case["perm_seed"])
    capture.MONITORS.append(mon)
    try:
        with ctx.repo_call(f"running scenario {case['scenario']}"):
            run()
    finally:
        capture.MONITORS.remove(mon)
    if mon.error is not None:
        raise mon.error
    ctx.extra["kernel_calls_monitored"] = ctx.extra.get("kernel_calls_monitored", 0) + mon.calls
    ctx.extra["inplace_calls"] = ctx.extra.get("inplace_calls", 0) + mon.inplace_calls
    ctx.extra["permuted_replays"] = ctx.extra.get("permuted_replays", 0) + mon.replayed
    ctx.note(nontrivial=mon.inplace_calls > 0 and mon.calls > 0, labels=[case["scenario"], f"replayed_{min(mon.replayed, 5)}"])


# ------------------------------------------------------------------------------------------------
# (c) real threads
# ------------------------------------------------------------------------------------------------

THREADS = [1, 2, 3, 5, 8, 16]
_FFTW_PINNED = {}


def _pin_fftw():
    """Third-party determinism: FFTW single-threaded and planned with FFTW_ESTIMATE in this sub-check."""
    if _FFTW_PINNED:
        return
    import pyfftw

    orig = pyfftw.FFTW

    def pinned(*args, **kwargs):
        if "threads" in kwargs and "flags" in kwargs:  # the plans SophT creates (keyword style)
            kwargs["threads"] = 1
            kwargs["flags"] = ("FFTW_ESTIMATE",)
        return orig(*args, **kwargs)

    pyfftw.FFTW = pinned
    _FFTW_PINNED["orig"] = orig


def _thread_strategy(tier, sc):
    @st.composite
    def case(draw):
        c = draw(_alias_strategy(tier, sc))
        # grids with >= 2*threads rows along the outer axis where affordable
        if c["scenario"] in simcfg.SIM_KINDS:
            c["cfg"]["width"] = 0 if tier == "quick" else c["cfg"]["width"]
            d = simcfg.sim_dim(c["scenario"])
            c["cfg"]["shape"] = draw(gen.grid_shape(d, 6, 34 if d == 2 else 12))
        else:
            d = len(c["shape"])
            c["shape"] = draw(gen.grid_shape(d, 5, 34 if d == 2 else 12))
        # two or three distinct thread counts; half of the cases span the whole range (fewer threads than planes vs more threads than
        # planes take different paths in blocked / load-balanced implementations)
        c["threads"] = draw(st.one_of(st.lists(st.sampled_from(THREADS), min_size=2, max_size=3, unique=True),
                                      st.sampled_from([[1, 16], [2, 16], [2, 8, 16], [3, 16], [1, 5, 16]])))
        c["include_serial_build"] = draw(st.booleans())
        return c

    return case()


def _thread_body(case, ctx):
    _pin_fftw()
    results = {}
    for t in case["threads"]:
        with ctx.repo_call(f"scenario {case['scenario']} with {t} threads"):
            run, obs = _run_scenario(case, ctx, threads=t)
            run()
        results[t] = {k: v.copy() for k, v in obs.items()}
    ref_t = case["threads"][0]
    for t in case["threads"][1:]:
        for k in results[ref_t]:
            a, b = results[ref_t][k], results[t][k]
            if a.tobytes() != b.tobytes():
                idx = np.argwhere(a != b)
                raise Violation(f"scenario {case['scenario']}: '{k}' differs between {ref_t} and {t} OpenMP threads "
                                f"(first at {idx[0].tolist() if len(idx) else 'nan-pattern'}; {len(idx)} cells)")
    if case["include_serial_build"]:
        with ctx.repo_call(f"scenario {case['scenario']} without OpenMP"):
            run, obs = _run_scenario(case, ctx, threads=False)
            run()
        for k, v in obs.items():
            if k == "stable_timestep_query":
                # 1 / max|u| amplifies the (legitimate) rounding difference between the two builds without bound where the recovered
                # velocity is a small difference of large stream-function values: demanded bit-identical across thread counts only
                continue
            a = results[ref_t][k].astype(np.float64)
            b = v.astype(np.float64)
            eps = float(np.finfo(v.dtype).eps)
            scale = float(np.max(np.abs(a), initial=0.0))
            if float(np.max(np.abs(a - b), initial=0.0)) > 256 * eps * scale + 64 * float(np.finfo(v.dtype).tiny):
                raise Violation(f"scenario {case['scenario']}: '{k}' of the no-OpenMP build differs from the threaded one beyond rounding")
    shape = case["cfg"]["shape"] if "cfg" in case else case["shape"]
    ctx.note(nontrivial=len(case["threads"]) >= 2 and shape[0] >= 2 * min(max(case["threads"]), 4),
             labels=[case["scenario"]] + [f"threads_{t}" for t in case["threads"]])


PARTS = [
    Part(name="kernel_dependence", strategy=None, body=_dep_body, examples={"quick": 1, "thorough": 1},
         exhaustive=_dep_cases),
    Part(name="call_site_aliasing", strategy=_alias_strategy, body=_alias_body,
         examples={"quick": 110, "thorough": 3000}, shards={"quick": 11, "thorough": 11}, variants=_scenario_variants),
    Part(name="thread_counts", strategy=_thread_strategy, body=_thread_body,
         examples={"quick": 66, "thorough": 1500}, shards={"quick": 11, "thorough": 11}, variants=_scenario_variants),
]
