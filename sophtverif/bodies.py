"""Generated immersed bodies (DESIGN section 2: ``pose`` and ``rod``) built on PyElastica objects."""

from __future__ import annotations

import numpy as np
from hypothesis import strategies as st

from . import gen


def quat_to_rot(q):
    q = np.asarray(q, dtype=np.float64)
    nrm = np.linalg.norm(q)
    if nrm < 1e-12:
        return np.eye(3)
    w, x, y, z = q / nrm
    return np.array([
        [1 - 2 * (y * y + z * z), 2 * (x * y - z * w), 2 * (x * z + y * w)],
        [2 * (x * y + z * w), 1 - 2 * (x * x + z * z), 2 * (y * z - x * w)],
        [2 * (x * z - y * w), 2 * (y * z + x * w), 1 - 2 * (x * x + y * y)],
    ])


def rodrigues(axis_angle):
    v = np.asarray(axis_angle, dtype=np.float64)
    th = np.linalg.norm(v)
    if th == 0:
        return np.eye(3)
    k = v / th
    K = np.array([[0, -k[2], k[1]], [k[2], 0, -k[0]], [-k[1], k[0], 0]])
    return np.eye(3) + np.sin(th) * K + (1 - np.cos(th)) * (K @ K)


def pose_spec(planar: bool):
    f = lambda lo, hi: gen.floats(lo, hi, 32)  # noqa: E731
    return st.fixed_dictionaries({
        "mode": st.sampled_from(["generic", "generic", "generic", "aligned", "flip"]),
        "center": st.lists(f(-2.0, 2.0), min_size=3, max_size=3),
        "quat": st.lists(f(-1.0, 1.0), min_size=4, max_size=4),
        "angle": f(-3.2, 3.2),
        "V": st.lists(f(-3.0, 3.0), min_size=3, max_size=3),
        "omega": st.lists(f(-4.0, 4.0), min_size=3, max_size=3),
        "omega_zero": st.booleans(),
        # the body is brought to rest: velocity and angular velocity exactly zero (fixed bodies, imposed motions that end)
        "at_rest": st.integers(0, 4).map(lambda k: k == 0),
    }).map(lambda d: {**d, "planar": planar})


def apply_pose(body, spec):
    """Overwrite the state arrays of a PyElastica rigid body with the drawn pose.  Returns Q (3x3)."""
    planar = spec["planar"]
    if planar:
        th = spec["angle"] if spec["mode"] != "aligned" else 0.0
        c, s = np.cos(th), np.sin(th)
        Q = np.array([[c, s, 0.0], [-s, c, 0.0], [0.0, 0.0, 1.0]])
        if spec["mode"] == "flip":  # d3 = -z, still right-handed
            Q = np.array([[c, s, 0.0], [s, -c, 0.0], [0.0, 0.0, -1.0]])
    else:
        if spec["mode"] == "aligned":
            Q = np.eye(3)
        elif spec["mode"] == "flip":
            Q = np.diag([1.0, -1.0, -1.0])
        else:
            Q = quat_to_rot(spec["quat"]).T
    body.director_collection[..., 0] = Q
    cen = np.array(spec["center"], dtype=np.float64)
    V = np.array(spec["V"], dtype=np.float64)
    om = np.zeros(3) if spec["omega_zero"] else np.array(spec["omega"], dtype=np.float64)
    if spec.get("at_rest"):
        V[:] = 0.0
        om[:] = 0.0
    if planar:
        cen[2] = 0.0
        V[2] = 0.0
        om[:2] = 0.0
    body.position_collection[:, 0] = cen
    body.velocity_collection[:, 0] = V
    body.omega_collection[:, 0] = om
    return Q


def make_rigid(kind, geom):
    import elastica as ea
    from sopht.simulator.immersed_body import RectangularPlane

    z = np.array([0.0, 0.0, 1.0])
    x = np.array([1.0, 0.0, 0.0])
    if kind in ("cylinder2d", "cylinder3d"):
        return ea.Cylinder(np.zeros(3), z, x, float(geom["length"]), float(geom["radius"]), 1.0)
    if kind == "sphere":
        return ea.Sphere(np.zeros(3), float(geom["radius"]), 1.0)
    if kind == "plane":
        return RectangularPlane(origin=np.zeros(3), plane_normal=z.copy(), plane_tangent_along_length=x.copy(),
                                plane_length=float(geom["length"]), plane_breadth=float(geom["breadth"]))
    raise ValueError(kind)


def rod_spec(planar: bool, max_elems: int = 40):
    f = lambda lo, hi: gen.floats(lo, hi, 32)  # noqa: E731
    return st.fixed_dictionaries({
        "n_elems": st.integers(2, max_elems),
        "key": gen.block_keys,
        "shape_mode": st.sampled_from(["straight", "bent", "bent", "wiggly"]),
        "taper": st.sampled_from(["uniform", "linear", "random", "slight", "slight"]),
        "taper_ratio": f(1.02, 2.0),
        "radius": f(0.01, 0.3),
        "length": f(0.3, 3.0),
        "start": st.lists(f(-1.0, 1.0), min_size=3, max_size=3),
        "curvature": f(-2.0, 2.0),
        "frame_mode": st.sampled_from(["generic", "generic", "tangent_aligned"]),
        "vel_scale": f(0.0, 3.0),
        "omega_scale": f(0.0, 4.0),
    }).map(lambda d: {**d, "planar": planar})


def make_rod(spec):
    """CosseratRod with generic pose: straight_rod, then state arrays overwritten in place."""
    import elastica as ea

    n = int(spec["n_elems"])
    planar = spec["planar"]
    rng = np.random.Generator(np.random.Philox(key=int(spec["key"])))
    rod = ea.CosseratRod.straight_rod(n, np.zeros(3), np.array([1.0, 0.0, 0.0]), np.array([0.0, 0.0, 1.0]),
                                      float(spec["length"]), float(spec["radius"]), 1000.0, youngs_modulus=1e6,
                                      shear_modulus=1e6 / 1.5)
    L = float(spec["length"])
    lens = L / n * (0.5 + rng.random(n)) if spec["shape_mode"] != "straight" else np.full(n, L / n)
    # tangents
    if planar:
        th0 = rng.uniform(-np.pi, np.pi)
        if spec["shape_mode"] == "straight":
            th = np.full(n, th0)
        elif spec["shape_mode"] == "bent":
            th = th0 + spec["curvature"] * np.cumsum(lens)
        else:
            th = th0 + np.cumsum(rng.uniform(-0.6, 0.6, n))
        tang = np.stack([np.cos(th), np.sin(th), np.zeros(n)])
    else:
        t0 = rng.normal(size=3)
        t0 /= np.linalg.norm(t0)
        tang = np.zeros((3, n))
        cur = t0
        for i in range(n):
            if spec["shape_mode"] != "straight":
                cur = rodrigues(rng.normal(size=3) * (0.15 if spec["shape_mode"] == "bent" else 0.5)) @ cur
            tang[:, i] = cur / np.linalg.norm(cur)
    start = np.array(spec["start"], dtype=np.float64)
    if planar:
        start[2] = 0.0
    pos = np.zeros((3, n + 1))
    pos[:, 0] = start
    for i in range(n):
        pos[:, i + 1] = pos[:, i] + lens[i] * tang[:, i]
    # directors
    Q = np.zeros((3, 3, n))
    for i in range(n):
        t = tang[:, i]
        if planar:
            nrm = np.array([-t[1], t[0], 0.0])
            zz = np.array([0.0, 0.0, 1.0])
            opts = [(nrm, zz), (zz, -nrm), (-nrm, -zz), (-zz, nrm)]
            d1, d2 = opts[int(rng.integers(0, 4))] if spec["frame_mode"] == "generic" else opts[0]
            Q[:, :, i] = np.stack([d1, d2, t])
        elif spec["frame_mode"] == "tangent_aligned":
            a = np.array([1.0, 0.0, 0.0]) if abs(t[0]) < 0.9 else np.array([0.0, 1.0, 0.0])
            d1 = np.cross(t, a)
            d1 /= np.linalg.norm(d1)
            d2 = np.cross(t, d1)
            Q[:, :, i] = np.stack([d1, d2, t])
        else:
            Q[:, :, i] = quat_to_rot(rng.normal(size=4)).T  # generic: NOT tied to the tangent
    rad = float(spec["radius"])
    if spec["taper"] == "uniform":
        radius = np.full(n, rad)
    elif spec["taper"] == "linear":
        radius = rad * np.linspace(1.0, 0.15, n)
    elif spec["taper"] == "slight":  # almost uniform rods: per-element marker counts of surface grids differ by a few
        radius = rad * np.linspace(1.0, 1.0 / float(spec.get("taper_ratio", 1.25)), n)
    else:
        radius = rad * (0.1 + 0.9 * rng.random(n))
    vel = spec["vel_scale"] * rng.normal(size=(3, n + 1))
    om = spec["omega_scale"] * rng.normal(size=(3, n))
    if planar:
        vel[2] = 0.0
    mass = 0.1 + rng.random(n + 1)
    rod.position_collection[...] = pos
    rod.director_collection[...] = Q
    rod.velocity_collection[...] = vel
    rod.omega_collection[...] = om
    rod.radius[...] = radius
    rod.lengths[...] = lens
    rod.tangents[...] = tang
    rod.mass[...] = mass
    return rod


def snapshot_body(body):
    names = ["position_collection", "director_collection", "velocity_collection", "omega_collection", "radius", "lengths",
             "tangents", "mass"]
    out = {}
    for nm in names:
        v = getattr(body, nm, None)
        if isinstance(v, np.ndarray):
            out[nm] = v.copy()
    return out


def body_unchanged(body, snap):
    for nm, v in snap.items():
        if getattr(body, nm).tobytes() != v.tobytes():
            return nm
    return None
