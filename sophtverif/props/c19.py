"""C19 - stabilising operators never amplify and leave admissible states fixed."""

from __future__ import annotations

import numpy as np
from hypothesis import strategies as st

from .. import gen, kernels
from ..runner import Part, Violation

PROPERTY_ID = "C19"
LEVEL = "exploration"
RULE = (
    "Four stratified Hypothesis parts. brinkmann: every Brinkmann kernel (Eulerian 2-D/3-D scalar+vector, vs-fixed-value "
    "scalar+vector, Lagrangian static kernel) with penalty sequences lambda in {0, drawn increasing values, 2^40}, "
    "indicator fields in [0,1] with exact 0 and 1 cells, any field/target: output cell-wise between field and target "
    "(4 eps slack), indicator==0 => output equal to the field within 4 ulp (the -Ofast reciprocal is approximate), |out-target| non-increasing in lambda and <= "
    "|field-target|/(1+lambda*chi)(1+8eps). char_function: level-set arrays containing +-blend, +-nextafter(blend), 0 and "
    "sorted drawn values: H in [-4eps,1+4eps], exactly 0/1 beyond the blend width, non-decreasing, H(phi)+H(-phi)=1+-8eps. "
    "boundary_damping: widths 0..6, extents from 2w upward, all field kinds: cells outside the zone bit-identical, "
    "outermost ring |.| <= 4eps*M, zone bounded by M(1+4eps) with M the pre-call max magnitude on the inner-edge ring. "
    "laplacian_filters: orders 1..4, both types, scalar/vector: constants fixed, checkerboard annihilated and plane waves "
    "cos(k.x+phi) multiplied by ONE scalar g in [0,1] at cells >= order+1 from the boundary; results bit-identical "
    "whether the two work buffers were zero or poisoned before the call. Non-trivial per part: lambda sequence with >= 3 "
    "distinct positive values and indicator with interior values; level sets hitting both blend edges; width >= 1 with "
    "non-zero inner edge; wave with all wave numbers non-zero. Distinct = digest of case."
)
ASSUMPTIONS = [
    "finite inputs; magnitudes within [2^-8, 2^8]; blend widths from a palette of 3 (embedded in the C source)",
]
BUDGET_S = {"quick": 160.0, "thorough": 2400.0}

_K = {}


def _cached(key, make):
    if key not in _K:
        _K[key] = make()
    return _K[key]


# ------------------------------------------------------------------------------------------------
# Brinkmann
# ------------------------------------------------------------------------------------------------

BRINK = ["eul2d_scalar", "eul2d_vector", "eul3d_scalar", "eul3d_vector", "fixed2d_scalar", "fixed2d_vector", "lagrangian"]


def _brink_variants(tier):
    return list(BRINK)


def _brink_strategy(tier, name):
    @st.composite
    def case(draw):
        dim = 3 if "3d" in name else 2
        lam = sorted(set(draw(st.lists(gen.log_uniform(1e-6, 1e6), min_size=2, max_size=5))))
        return {
            "kernel": name,
            "shape": draw(gen.grid_shape(dim, 2, 9 if dim == 2 else 5, long_axis=70 if dim == 2 else 40)),
            "dtype": draw(gen.precisions),
            "threads": draw(st.sampled_from([False, 2])),
            "field": draw(gen.vector_field_spec(3, max_mag_exp=8)),
            "target": draw(gen.vector_field_spec(3, max_mag_exp=8)),
            "chi": draw(gen.field_spec(kinds=["noise", "bumps", "mixed", "checker", "constant", "zero"], max_mag_exp=1)),
            "chi_exact": draw(st.lists(st.tuples(gen.floats(0.0, 1.0, 32), gen.floats(0.0, 1.0, 32), gen.floats(0.0, 1.0, 32),
                                                 st.sampled_from([0.0, 1.0])).map(list), min_size=1, max_size=4)),
            "lambdas": [0.0] + lam + [float(2.0**40)],
            "fixed": draw(st.lists(gen.floats(-8.0, 8.0, 32), min_size=2, max_size=2)),
            "n_markers": draw(st.integers(1, 9)),
            "inplace": draw(st.integers(0, 2)) == 0,
        }

    return case()


def _brink_body(case, ctx):
    import sopht.numeric.eulerian_grid_ops as spne

    name = case["kernel"]
    real_t = gen.np_dtype(case["dtype"])
    eps = float(np.finfo(real_t).eps)
    thr = case["threads"]
    dim = 3 if "3d" in name else 2
    shape = tuple(case["shape"])
    vec = name.endswith("vector")
    chi = np.clip(0.5 + 0.5 * np.tanh(gen.build_field(case["chi"], shape, np.float64)), 0.0, 1.0)
    for sp in case["chi_exact"]:
        idx = tuple(min(n - 1, int(sp[a] * n)) for a, n in enumerate(shape))
        chi[idx] = sp[3]
    chi = chi.astype(real_t)
    ncomp = dim if vec else 1
    f = gen.build_vector_field(case["field"][:ncomp], shape, real_t)
    p = gen.build_vector_field(case["target"][:ncomp], shape, real_t)
    if name == "lagrangian":
        from sopht.numeric.immersed_boundary_ops import BrinkmannBoundaryForcing

        n = case["n_markers"]
        f = gen.build_vector_field(case["field"][:2], (n,), real_t)
        p = gen.build_vector_field(case["target"][:2], (n,), real_t)
        chi = np.ones((n,), dtype=real_t)
        ncomp = 2
    elif name.startswith("fixed"):
        p = np.stack([np.full(shape, real_t(case["fixed"][c]), dtype=real_t) for c in range(ncomp)])

    def run(lam):
        out = np.full_like(f, 12345.0)
        fin = f
        if case.get("inplace") and name != "lagrangian":
            # penalisation applied in place: the output argument is a fresh view OBJECT of the input's memory (e.g. velocity[:])
            fin = f.copy()
            out = fin[...]
        with ctx.repo_call(f"brinkmann {name}"):
            if name == "lagrangian":
                dt = [1.0, 0.25, 2.0 ** -7][case["n_markers"] % 3]  # penalty = coefficient * dt
                BrinkmannBoundaryForcing.brinkmann_penalise_lag_grid_velocity_field(out, f, p, real_t(lam / dt), real_t(dt))
            elif name.startswith("eul"):
                k = _cached((name, case["dtype"], thr), lambda: getattr(spne, f"gen_brinkmann_penalise_pyst_kernel_{dim}d")(
                    real_t=real_t, num_threads=thr, field_type="vector" if vec else "scalar"))
                if vec:
                    k(penalised_vector_field=out, penalty_factor=lam, char_field=chi, penalty_vector_field=p, vector_field=fin)
                else:
                    k(penalised_field=out[0], penalty_factor=lam, char_field=chi, penalty_field=p[0], field=fin[0])
            else:
                k = _cached((name, case["dtype"], thr), lambda: spne.gen_brinkmann_penalise_vs_fixed_val_pyst_kernel_2d(
                    real_t=real_t, num_threads=thr, field_type="vector" if vec else "scalar"))
                if vec:
                    k(penalised_vector_field=out, penalty_factor=lam, char_field=chi, penalty_val=[float(p[0].flat[0]), float(p[1].flat[0])],
                      vector_field=fin)
                else:
                    k(penalised_field=out[0], penalty_factor=lam, char_field=chi, penalty_val=float(p[0].flat[0]), field=fin[0])
        return out

    F, P, C = f.astype(np.float64), p.astype(np.float64), np.broadcast_to(chi.astype(np.float64), f.shape)
    scale = np.maximum(np.abs(F), np.abs(P))
    slack = 4 * eps * scale + 16 * float(np.finfo(real_t).tiny)
    prev_dist = None
    f_snapshot = f.tobytes()
    for lam in case["lambdas"]:
        out = run(lam).astype(np.float64)
        lo, hi = np.minimum(F, P), np.maximum(F, P)
        if np.any(out < lo - slack) or np.any(out > hi + slack) or not np.all(np.isfinite(out)):
            i = np.unravel_index(int(np.argmax(np.maximum(lo - out, out - hi))), out.shape)
            raise Violation(f"brinkmann {name}: output {out[i]!r} is not between field {F[i]!r} and target {P[i]!r} "
                            f"(lambda {lam:.4g}, chi {C[i]!r}, {case['dtype']})")
        # "equal to the field where the indicator is zero": the -Ofast build divides through an approximate
        # reciprocal (x/1 may be 1 ulp off), so equality is demanded up to 4 ulp, not bit-wise
        zero = (C == 0) if name != "lagrangian" else np.zeros(F.shape, dtype=bool)
        if lam == 0.0:
            zero = np.ones(F.shape, dtype=bool)
        if np.any(np.abs(out - F)[zero] > (4 * eps * np.abs(F) + 16 * float(np.finfo(real_t).tiny))[zero]):
            raise Violation(f"brinkmann {name}: cells with indicator 0 (or zero penalty) differ from the field beyond rounding (lambda {lam:.4g})")
        dist = np.abs(out - P)
        bound = np.abs(F - P) / (1 + lam * C) * (1 + 8 * eps) + slack
        if np.any(dist > bound):
            i = np.unravel_index(int(np.argmax(dist - bound)), out.shape)
            raise Violation(f"brinkmann {name}: |out-target| = {dist[i]:.6e} exceeds |field-target|/(1+lambda*chi) = {bound[i]:.6e} "
                            f"(lambda {lam:.4g}, chi {C[i]!r})")
        if prev_dist is not None and np.any(dist > prev_dist + 2 * slack):
            raise Violation(f"brinkmann {name}: distance to the target increased when the penalty grew to {lam:.4g}")
        prev_dist = dist
    if f.tobytes() != f_snapshot:
        raise Violation(f"brinkmann {name}: input field modified")
    interior_chi = bool(np.any((C > 0) & (C < 1))) or name == "lagrangian"
    ctx.note(nontrivial=len(case["lambdas"]) >= 5 and interior_chi, labels=[name, case["dtype"],
             "has_chi_0" if np.any(C == 0) else "no_chi_0", "has_chi_1" if np.any(C == 1) else "no_chi_1"])


# ------------------------------------------------------------------------------------------------
# characteristic function
# ------------------------------------------------------------------------------------------------

BLENDS = [0.3, 0.0625, 1.0]


def _char_variants(tier):
    # "free": the blend width itself is drawn (a new kernel per case: the width is embedded in the generated source); rounding of
    # width-derived constants differs from width to width
    return [[d, b] for d in (2, 3) for b in BLENDS] + [[d, "free"] for d in (2, 3)] * 2


def _char_strategy(tier, var):
    @st.composite
    def case(draw):
        blend = var[1] if var[1] != "free" else draw(st.one_of(gen.log_uniform(0.01, 2.0), gen.floats(0.01, 0.5, 64)))
        return {"dim": var[0], "blend": blend, "dtype": draw(gen.precisions),
                "threads": draw(st.sampled_from([False, 2])) if var[1] != "free" else False,
                "values": draw(st.lists(gen.floats(-3.0, 3.0, 64), min_size=8, max_size=40)),
                "ulps": draw(st.lists(st.integers(-3, 3), min_size=4, max_size=4))}

    return case()


def _char_body(case, ctx):
    dim, bw = case["dim"], case["blend"]
    real_t = gen.np_dtype(case["dtype"])
    eps = float(np.finfo(real_t).eps)
    gname = f"gen_char_func_from_level_set_via_sine_heaviside_pyst_kernel_{dim}d"
    with ctx.repo_call(gname):
        if bw in BLENDS:
            k = _cached((gname, bw, case["dtype"], case["threads"]),
                        lambda: kernels.build(gname, {"blend_width": bw}, None, real_t, case["threads"])[0])
        else:
            k = kernels.build(gname, {"blend_width": bw}, None, real_t, case["threads"])[0]
    vals = [v * bw for v in case["values"]]
    special = [0.0, bw, -bw]
    b = real_t(bw)
    for u in case["ulps"]:
        x = b
        for _ in range(abs(u)):
            x = np.nextafter(x, real_t(np.inf if u > 0 else -np.inf))
        special += [float(x), -float(x)]
    allv = np.array(sorted(set(vals + special)), dtype=np.float64).astype(real_t)
    allv = np.unique(allv)
    sym = np.concatenate([allv, -allv[::-1]])
    n = len(sym)
    shape = (2, n) if dim == 2 else (2, 1, n)
    phi = np.zeros(shape, dtype=real_t)
    phi[0].reshape(-1)[:] = np.sort(sym)
    phi[1].reshape(-1)[:] = -np.sort(sym)
    H = np.full(shape, 7.0, dtype=real_t)
    with ctx.repo_call("char_func_from_level_set"):
        k(char_func_field=H, level_set_field=phi)
    h0 = H[0].reshape(-1).astype(np.float64)
    h1 = H[1].reshape(-1).astype(np.float64)
    p0 = phi[0].reshape(-1).astype(np.float64)
    if np.any(h0 < -4 * eps) or np.any(h0 > 1 + 4 * eps) or not np.all(np.isfinite(h0)):
        raise Violation(f"characteristic function leaves [0,1]: min {h0.min()!r} max {h0.max()!r} (blend {bw}, {case['dtype']})")
    # "beyond the blend width": more than one ulp of the working precision beyond it (the kernel holds the
    # blend width in working precision, so values within an ulp of it may fall on either side)
    bwr = float(real_t(bw))
    beyond_pos, beyond_neg = p0 > bwr * (1 + 2 * eps), p0 < -bwr * (1 + 2 * eps)
    if np.any(H[0].reshape(-1)[beyond_pos] != 1) or np.any(H[0].reshape(-1)[beyond_neg] != 0):
        raise Violation(f"characteristic function is not exactly 1/0 beyond the blend width {bw}")
    d = np.diff(h0)
    if np.any(d < -8 * eps):
        j = int(np.argmin(d))
        raise Violation(f"characteristic function decreases: H({p0[j]!r})={h0[j]!r} > H({p0[j + 1]!r})={h0[j + 1]!r} (blend {bw})")
    if np.any(np.abs(h0 + h1 - 1.0) > 8 * eps):
        j = int(np.argmax(np.abs(h0 + h1 - 1.0)))
        raise Violation(f"H(phi)+H(-phi) = {h0[j] + h1[j]!r} != 1 at phi={p0[j]!r} (blend {bw})")
    ctx.note(nontrivial=bool(np.any(beyond_pos)) and bool(np.any(beyond_neg)) and bool(np.any(np.abs(p0) < bw)),
             labels=[f"{dim}d_blend{bw}" if bw in BLENDS else f"{dim}d_blend_drawn", case["dtype"]])


# ------------------------------------------------------------------------------------------------
# boundary damping
# ------------------------------------------------------------------------------------------------


def _damp_variants(tier):
    ws = range(0, 7) if tier == "thorough" else range(0, 7)
    return [[d, w] for d in (2, 3) for w in ws]


def _damp_palette(d, w):
    w = max(w, 1)
    return [[2 * w] * d, [2 * w + 1, 2 * w + 3, 2 * w + 2][:d], [13, 15, 14][:d]]


def _damp_strategy(tier, var):
    d, w = var

    @st.composite
    def case(draw):
        if tier == "thorough" and draw(st.booleans()):
            shape = draw(gen.grid_shape(d, max(2, 2 * w), 2 * w + 10 if d == 2 else 2 * w + 5))
            dx = draw(st.sampled_from([0.1, 0.0625, 0.037]))
        else:
            shape = draw(st.sampled_from(_damp_palette(d, w)))
            dx = 0.1
        return {"dim": d, "width": w, "shape": shape, "dx": dx, "dtype": draw(gen.precisions),
                "vector": draw(st.booleans()) if d == 3 else False,
                "field": draw(gen.vector_field_spec(3, max_mag_exp=8))}

    return case()


def _depth(shape):
    grids = np.meshgrid(*[np.minimum(np.arange(n), n - 1 - np.arange(n)) for n in shape], indexing="ij")
    return np.minimum.reduce(grids)


def _damp_body(case, ctx):
    d, w = case["dim"], case["width"]
    shape = tuple(case["shape"])
    real_t = gen.np_dtype(case["dtype"])
    eps = float(np.finfo(real_t).eps)
    opts = {"width": w} if d == 2 else {"width": w, "field_type": "vector" if case["vector"] else "scalar"}
    with ctx.repo_call(f"gen_penalise_field_boundary_pyst_kernel_{d}d(width={w})"):
        k, _ = kernels.build(f"gen_penalise_field_boundary_pyst_kernel_{d}d", opts, "grid2" if d == 2 else "grid3",
                             real_t, 2, shape=shape, dx=case["dx"])
    ncomp = 3 if case["vector"] else 1
    f = gen.build_vector_field(case["field"][:ncomp], shape, real_t)
    f0 = f.copy()
    with ctx.repo_call(f"penalise_field_boundary_{d}d(width={w})"):
        if case["vector"]:
            k(vector_field=f)
        else:
            k(field=f[0])
    depth = _depth(shape)
    outside = depth >= w
    for c in range(ncomp):
        if f[c][outside].tobytes() != f0[c][outside].tobytes() and not np.array_equal(f[c][outside], f0[c][outside]):  # sign of zero aside
            raise Violation(f"boundary damping width {w}: cells outside the zone were modified (shape {list(shape)})")
        if w == 0:
            continue
        M = float(np.max(np.abs(f0[c][depth == w - 1]).astype(np.float64)))
        ring = np.abs(f[c][depth == 0].astype(np.float64))
        # cell coordinates are differenced in working precision: (x_end - x) is zero only up to eps*x_end,
        # and the ramp argument scales it by (pi/2)/(w dx): "zero up to rounding" = O(eps * n) * M
        if np.any(ring > 8 * eps * max(shape) * M + 16 * float(np.finfo(real_t).tiny)):
            raise Violation(f"boundary damping width {w}: outermost ring not driven to zero (max {ring.max():.3e}, inner-edge max {M:.3e})")
        zone = np.abs(f[c][depth < w].astype(np.float64))
        if np.any(zone > M * (1 + 4 * eps)) or not np.all(np.isfinite(zone)):
            raise Violation(f"boundary damping width {w}: zone value {zone.max():.6e} exceeds the inner-edge magnitude {M:.6e} "
                            f"(shape {list(shape)}, {case['dtype']})")
    inner_nonzero = w >= 1 and bool(np.any(f0[0][depth == max(w - 1, 0)] != 0))
    ctx.note(nontrivial=inner_nonzero, labels=[f"{d}d_width{w}", "minimal_extent" if min(shape) == 2 * max(w, 1) else "larger",
                                               "vector" if case["vector"] else "scalar"])


# ------------------------------------------------------------------------------------------------
# Laplacian filters
# ------------------------------------------------------------------------------------------------


def _filt_variants(tier):
    return [[o, t, ft] for o in (1, 2, 3, 4) for t in ("multiplicative", "convolution") for ft in ("scalar", "vector")]


def _filt_strategy(tier, var):
    o, t, ft = var

    @st.composite
    def case(draw):
        lo = 2 * (o + 1) + 1
        return {"order": o, "type": t, "field_type": ft, "dtype": draw(gen.precisions),
                "shape": draw(gen.grid_shape(3, lo, lo + (4 if tier == "thorough" else 2), long_axis=40)),
                "mode": draw(st.sampled_from(["constant", "checker", "wave", "wave", "wave"])),
                "k": draw(st.lists(gen.floats(-3.1, 3.1, 32), min_size=3, max_size=3)),
                "phase": draw(gen.floats(0.0, 6.28, 32)),
                "amp_exp": draw(st.integers(-6, 6)),
                "poison": draw(st.sampled_from([1e30, -3.0e7, 12345.678])),
                "threads": draw(st.sampled_from([False, 2]))}

    return case()


def _filt_body(case, ctx):
    import sopht.numeric.eulerian_grid_ops as spne

    o, t, ft = case["order"], case["type"], case["field_type"]
    shape = tuple(case["shape"])
    real_t = gen.np_dtype(case["dtype"])
    eps = float(np.finfo(real_t).eps)
    grids = np.meshgrid(*[np.arange(n, dtype=np.float64) for n in shape], indexing="ij")
    amp = 2.0 ** case["amp_exp"]
    if case["mode"] == "constant":
        base = np.full(shape, amp)
    elif case["mode"] == "checker":
        base = amp * (1.0 - 2.0 * ((grids[0] + grids[1] + grids[2]) % 2))
    else:
        kz, ky, kx = case["k"]
        base = amp * np.cos(kz * grids[0] + ky * grids[1] + kx * grids[2] + case["phase"])
    field0 = (np.stack([base, -0.5 * base, 2.0 * base]) if ft == "vector" else base).astype(real_t)

    def make(fill):
        bufs = np.full((2, *shape), fill, dtype=real_t)
        with ctx.repo_call("gen_laplacian_filter_kernel_3d"):
            k = spne.gen_laplacian_filter_kernel_3d(filter_order=o, filter_flux_buffer=bufs[0], field_buffer=bufs[1], real_t=real_t,
                                                    num_threads=case["threads"], field_type=ft, filter_type=t)
        return k, bufs

    def apply(k):
        f = field0.copy()
        with ctx.repo_call(f"laplacian filter order {o} {t} {ft}"):
            if ft == "vector":
                k(vector_field=f)
            else:
                k(scalar_field=f)
        return f

    # (1) buffers zero at generation and at the call
    k0, bufs0 = make(0.0)
    out_zero = apply(k0)
    # (2) buffers poisoned BEFORE generation
    k1, _ = make(case["poison"])
    out_poison = apply(k1)
    # (3) the SAME kernel object, buffers dirtied AFTER generation / between calls (as the simulators re-use the buffers)
    bufs0[...] = case["poison"]
    out_again = apply(k0)
    bufs0[0][...] = -0.75 * case["poison"]
    out_third = apply(k0)
    if not (out_zero.tobytes() == out_poison.tobytes() == out_again.tobytes() == out_third.tobytes()):
        which = "before generation" if out_zero.tobytes() != out_poison.tobytes() else "between calls of the same kernel object"
        raise Violation(f"laplacian filter order {o} {t}: result depends on the previous contents of the work buffers (dirtied {which})")
    depth = _depth(shape)
    away = depth >= o + 1
    comps = out_zero if ft == "vector" else out_zero[None]
    ins = field0 if ft == "vector" else field0[None]
    for c in range(comps.shape[0]):
        got = comps[c].astype(np.float64)
        inp = ins[c].astype(np.float64)
        sc = float(np.max(np.abs(inp)))
        if case["mode"] == "constant":
            if np.any(np.abs(got - inp)[depth >= 1] > 16 * eps * sc):
                raise Violation(f"laplacian filter order {o} {t}: constant field not preserved (max dev {np.abs(got - inp).max():.3e})")
        elif case["mode"] == "checker":
            if np.any(np.abs(got[away]) > 64 * eps * sc):
                raise Violation(f"laplacian filter order {o} {t}: checkerboard mode not annihilated away from the boundary "
                                f"(max {np.abs(got[away]).max():.3e} vs amplitude {sc:.3e})")
        else:
            a, b = inp[away], got[away]
            den = float(np.dot(a, a))
            if den <= 0:
                continue
            g = float(np.dot(a, b)) / den
            res = float(np.max(np.abs(b - g * a)))
            if res > 64 * eps * sc * (2.0 ** o):
                raise Violation(f"laplacian filter order {o} {t}: plane wave is not an eigenfunction away from the boundary "
                                f"(residual {res:.3e}, amplitude {sc:.3e}, k={case['k']})")
            if g < -16 * eps * 2.0 ** o or g > 1 + 16 * eps * 2.0 ** o:
                raise Violation(f"laplacian filter order {o} {t}: Fourier mode k={case['k']} multiplied by {g!r} outside [0,1]")
            s = [np.sin(kk / 2.0) ** 2 for kk in case["k"]]
            gref = 1.0 - np.prod([x ** o for x in s]) if t == "multiplicative" else np.prod([1.0 - x ** o for x in s])
            if abs(g - gref) > 256 * eps * 2.0 ** o + 1e-12:
                raise Violation(f"laplacian filter order {o} {t}: symbol {g!r} differs from the documented {gref!r} for k={case['k']}")
    ctx.note(nontrivial=case["mode"] != "wave" or all(abs(q) > 1e-3 for q in case["k"]),
             labels=[f"order{o}_{t}_{ft}", case["mode"], case["dtype"]])


PARTS = [
    Part(name="brinkmann", strategy=_brink_strategy, body=_brink_body, variants=_brink_variants,
         examples={"quick": 420, "thorough": 8000}, shards={"quick": 7, "thorough": 14}),
    Part(name="char_function", strategy=_char_strategy, body=_char_body, variants=_char_variants,
         examples={"quick": 400, "thorough": 6000}, shards={"quick": 10, "thorough": 10}),
    Part(name="boundary_damping", strategy=_damp_strategy, body=_damp_body, variants=_damp_variants,
         examples={"quick": 280, "thorough": 6000}, shards={"quick": 7, "thorough": 14}),
    Part(name="laplacian_filters", strategy=_filt_strategy, body=_filt_body, variants=_filt_variants,
         examples={"quick": 256, "thorough": 6000}, shards={"quick": 8, "thorough": 16}),
]
