#!/venv/bin/python
"""Calibrate the C02 constants on the unchanged tree: B(n) = 3 x largest error seen, delta = margin below the smallest order.

  tools/calibrate_c02.py [--per-key 36] [--seed 12345]

Writes calibration/c02.json with the constants AND the data behind them (committed; read-only at check time).
"""
import argparse, json, os, sys, time
import multiprocessing as mp
from concurrent.futures import ProcessPoolExecutor

HERE = os.path.dirname(os.path.dirname(os.path.abspath(__file__)))
sys.path.insert(0, HERE)


def gen_cases(kind, dtype, n, seed):
    import warnings
    warnings.filterwarnings("ignore")
    from hypothesis import given, settings, seed as hseed, HealthCheck, Phase
    from sophtverif.props import c02
    out = []

    @hseed(seed)
    @settings(max_examples=n, database=None, deadline=None, suppress_health_check=list(HealthCheck), phases=[Phase.generate])
    @given(c02._strategy("thorough", [kind, dtype, 0]))
    def collect(case):
        out.append(case)

    collect()
    return out


def run_case(case):
    import warnings
    warnings.filterwarnings("ignore")
    from sophtverif import capture
    capture.install()
    from sophtverif.props import c02
    t0 = time.time()
    errs, info = c02.measure(case)
    return {"case": case, "errors": {str(k): v for k, v in errs.items()}, "steps": {str(k): v for k, v in info.items()}, "wall_s": round(time.time() - t0, 2)}


def main():
    ap = argparse.ArgumentParser()
    ap.add_argument("--per-key", type=int, default=36)
    ap.add_argument("--seed", type=int, default=12345)
    a = ap.parse_args()
    import numpy as np
    from sophtverif import compat
    compat.setup_env()
    cases = []
    for kind in ("ns2d", "passive2d", "passive3d"):
        for dtype in ("float32", "float64"):
            cs = gen_cases(kind, dtype, a.per_key, a.seed)
            # make sure every resolution appears: force full families on a third of the cases
            from sophtverif.props import c02
            dim = 3 if kind.endswith("3d") else 2
            for i, c in enumerate(cs):
                if i % 3 == 0:
                    c["family"] = list(c02.RES[dim])
            cases += cs
    print(f"{len(cases)} families", file=sys.stderr)
    results = []
    with ProcessPoolExecutor(max_workers=16, mp_context=mp.get_context("spawn")) as ex:
        for r in ex.map(run_case, cases):
            results.append(r)
            print(r["case"]["kind"], r["case"]["dtype"], r["errors"], r["wall_s"], file=sys.stderr)
    bounds, delta, stats = {}, {}, {}
    for kind in ("ns2d", "passive2d", "passive3d"):
        for dtype in ("float32", "float64"):
            key = f"{kind}_{dtype}"
            rs = [r for r in results if r["case"]["kind"] == kind and r["case"]["dtype"] == dtype]
            eps = float(np.finfo(np.float32 if dtype == "float32" else np.float64).eps)
            worst, orders = {}, []
            for r in rs:
                fam = r["case"]["family"]
                for n in fam:
                    worst[str(n)] = max(worst.get(str(n), 0.0), r["errors"][str(n)])
                x, y = fam[0], fam[-1]
                ea, eb = r["errors"][str(x)], r["errors"][str(y)]
                if y >= 2 * x and ea > 1e3 * eps and eb > 1e3 * eps:
                    orders.append(float(np.log(ea / eb) / np.log(y / x)))
            bounds[key] = {n: 3.0 * v for n, v in worst.items()}
            mo = min(orders)
            delta[key] = float(max(0.1, 1.0 - mo + 0.1))
            stats[key] = {"families": len(rs), "largest_error": worst, "min_order": mo, "median_order": float(np.median(orders)),
                          "pairs": len(orders)}
    out = {"description": "C02 calibration on the unchanged tree; B(n) = 3 x largest relative L2 error seen, delta = 1 - (smallest observed coarsest-to-finest order) + 0.1 (at least 0.1)",
           "seed": a.seed, "per_key": a.per_key, "bounds": bounds, "delta": delta, "stats": stats,
           "data": [{"kind": r["case"]["kind"], "dtype": r["case"]["dtype"], "family": r["case"]["family"], "errors": r["errors"],
                     "params": {k: r["case"][k] for k in ("sigma_cells", "age_ratio", "disp_cells", "aspect", "peak")}} for r in results]}
    os.makedirs(os.path.join(HERE, "calibration"), exist_ok=True)
    json.dump(out, open(os.path.join(HERE, "calibration", "c02.json"), "w"), indent=1)
    print(json.dumps({"delta": delta, "stats": stats}, indent=1))


if __name__ == "__main__":
    main()
