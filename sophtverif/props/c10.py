"""C10 - virtual-boundary feedback is the documented PI law over any call history."""

from __future__ import annotations

import numpy as np
from hypothesis import strategies as st

from .. import bodies, gen, ibm
from ..runner import Part, Violation
from ..stateful import make_machine, trace_body

PROPERTY_ID = "C10"
LEVEL = "exploration"
RULE = (
    "Hypothesis stateful machine (one per history): init draws dimension, precision, reset mode on/off, 1-3 bodies sharing ONE "
    "Eulerian forcing field and ONE velocity field; bodies are ImmersedBodyFlowInteraction objects with a harness forcing grid "
    "(marker positions/velocities are machine state; 7 or 33 markers) or real RigidBodyFlowInteraction objects (2-D circular "
    "cylinder with 33 points, sphere with 18). Rules: evaluate_interaction(body) = __call__, evaluate_body_forces(body) = "
    "compute_flow_forces_and_torques, time_step(body, dt) with dt over 5 decades, move_body (new marker set / new pose and "
    "velocities), nudge_body (displacement of 1e-9..1e-3 cells), change_flow(field), flow_consumes_forcing (zeroes the shared field as a flow step does). Model (oracle): per body "
    "integral I, last mismatch V, time t; evaluate: V = interp_ref(u, X) - Xdot, F = k s I + c s V, s = (max marker spacing)^(dim-1), "
    "E = (reset ? 0 : E) + spread_ref(F); time_step: I += dt V, t += dt; interp_ref/spread_ref are an independent float64 "
    "cosine-delta implementation. After EVERY rule: marker force, position- and velocity-mismatch fields, time and the shared "
    "Eulerian forcing field match the model (256 eps S, S accumulated along the history); flow velocity array and all body-state "
    "arrays bit-identical to their snapshots; the interaction's velocity view is not writeable. Non-trivial history: contains "
    "evaluate -> time_step -> evaluate with a moved body, a repeated evaluate without a step, and (multi-body) two evaluates into "
    "the shared field before it is consumed. Distinct = digest of the operation trace."
    " Marker kinematics of real rigid bodies are recomputed from the body state (offsets read once at construction); start times up to 1e9, float32 dt scalars, thread counts handed to the interactions, bodies brought to rest."
)
ASSUMPTIONS = ["markers stay >= 2 cells inside the domain", "grid spacing 1/16 and marker counts {7,18,33} (numba compile palette)"]
BUDGET_S = {"quick": 170.0, "thorough": 3000.0}

DX = 0.0625
GRID = {2: (40, 44), 3: (22, 24, 26)}
K_TOL = 256.0


def _harness_grid_cls():
    from sopht.simulator.immersed_body import ImmersedBodyForcingGrid

    class HarnessForcingGrid(ImmersedBodyForcingGrid):
        """Forcing grid whose marker positions/velocities are owned by the test harness."""

        def __init__(self, grid_dim, source):
            self.source = source
            super().__init__(grid_dim, source["pos"].shape[1])
            self.compute_lag_grid_position_field()
            self.compute_lag_grid_velocity_field()

        def compute_lag_grid_position_field(self):
            self.position_field[...] = self.source["pos"]

        def compute_lag_grid_velocity_field(self):
            self.velocity_field[...] = self.source["vel"]

        def transfer_forcing_from_grid_to_body(self, body_flow_forces, body_flow_torques, lag_grid_forcing_field):
            body_flow_forces[...] = 0.0
            body_flow_forces[: self.grid_dim, 0] = -np.sum(lag_grid_forcing_field, axis=1)

        def get_maximum_lagrangian_grid_spacing(self):
            return self.source["spacing"]

    return HarnessForcingGrid


def _new_state(ctx):
    return {"bodies": []}


def _marker_positions(fracs, dim, n):
    shape = GRID[dim]
    pos = np.zeros((dim, n))
    for c in range(dim):
        nc = shape[dim - 1 - c]
        lo, hi = 2.0 * DX, (nc - 2.0) * DX
        for m in range(n):
            pos[c, m] = lo + fracs[(c * 37 + m) % len(fracs)] * (hi - lo)
    return pos


def _init_strategy(tier):
    frac = gen.floats(0.0, 1.0, 32)

    @st.composite
    def init(draw):
        dim = draw(st.sampled_from([2, 3]))
        nb = draw(st.integers(1, 3))
        kinds = [draw(st.sampled_from(["harness7", "harness33", "rigid"])) for _ in range(nb)]
        return {
            "dim": dim, "dtype": draw(gen.precisions), "reset": draw(st.booleans()),
            "bodies": [{"kind": k, "fracs": draw(st.lists(frac, min_size=40, max_size=40)),
                        "vel": draw(st.lists(gen.floats(-2.0, 2.0, 32), min_size=9, max_size=9)),
                        "k": draw(gen.floats(-5e3, 5e3, 32)), "c": draw(gen.floats(-50.0, 50.0, 32)),
                        "spacing": draw(gen.floats(0.03, 0.2, 32)),
                        "pose": draw(bodies.pose_spec(planar=(dim == 2))), "radius": draw(gen.floats(0.15, 0.35, 32)),
                        # forcing clock at construction: fresh runs, restarted runs, long runs (clock huge compared with dt)
                        "t0": draw(st.sampled_from([0.0, 0.0, 2.5, 1234.5, 2.5e6, 1.0e9])),
                        # thread count handed to the interaction (the examples pass the simulator's): no effect on any result
                        "threads": draw(st.sampled_from([False, False, 1, 2, 3]))} for k in kinds],
            "flow": draw(gen.vector_field_spec(3, kinds=["poly", "noise", "mixed", "bumps", "constant"], max_mag_exp=3)),
        }

    return init()


def _rules(tier):
    frac = gen.floats(0.0, 1.0, 32)
    b = st.integers(0, 2)
    return {
        "evaluate_interaction": ({"b": b}, None),
        "evaluate_body_forces": ({"b": b}, None),
        "time_step": ({"b": b, "dt": gen.log_uniform(1e-5, 1.0), "dt_f32": st.booleans()}, None),
        "move_body": ({"b": b, "fracs": st.lists(frac, min_size=40, max_size=40),
                       "vel": st.lists(gen.floats(-2.0, 2.0, 32), min_size=9, max_size=9),
                       "pose": bodies.pose_spec(planar=False)}, None),
        # a body that barely moves between two evaluations (slow bodies, small time steps): displacement 1e-9..1e-3 cells
        "nudge_body": ({"b": b, "exp": st.integers(-9, -3), "dirs": st.lists(gen.floats(-1.0, 1.0, 32), min_size=9, max_size=9)}, None),
        # one feedback cycle as the simulation loops run it: evaluate, step the forcing, move the body, evaluate again
        "feedback_cycle": ({"b": b, "dt": gen.log_uniform(1e-5, 1.0), "fracs": st.lists(frac, min_size=40, max_size=40),
                            "vel": st.lists(gen.floats(-2.0, 2.0, 32), min_size=9, max_size=9),
                            "pose": bodies.pose_spec(planar=False)}, None),
        "change_flow": ({"flow": gen.vector_field_spec(3, kinds=["poly", "noise", "mixed", "bumps", "zero"], max_mag_exp=3)}, None),
        "flow_consumes_forcing": ({}, None),
    }


def _set_pose(bd, pose, dim):
    p = dict(pose)
    p["planar"] = dim == 2
    shape = GRID[dim]
    # keep the body (radius <= 0.35) at least 2 cells inside
    c = []
    for a in range(3):
        if a >= dim:
            c.append(0.0)
            continue
        nc = shape[dim - 1 - a]
        lo, hi = 2 * DX + 0.4, (nc - 2) * DX - 0.4
        c.append(lo + (0.5 + 0.25 * np.tanh(p["center"][a])) * (hi - lo) * 1.0 if hi > lo else (lo + hi) / 2)
    p["center"] = c
    bodies.apply_pose(bd["body"], p)


def _step(s, op, ctx):
    import sopht.simulator.immersed_body as spi

    kind = op["op"]
    if kind == "init":
        dim = op["dim"]
        real_t = gen.np_dtype(op["dtype"])
        shape = GRID[dim]
        s.update(dim=dim, real_t=real_t, reset=op["reset"], shape=shape, eps=float(np.finfo(real_t).eps))
        s["u"] = gen.build_vector_field(op["flow"][:dim], shape, real_t)
        s["E"] = np.zeros((dim, *shape), dtype=real_t)
        s["E_model"] = np.zeros((dim, *shape))
        s["S_E"] = 0.0
        s["flags"] = {"eval_step_eval": False, "eval_step_eval_moved": False, "repeat_eval": False, "two_into_shared": False,
                      "nudged": False}
        s["pending_since_consume"] = set()
        Hcls = _harness_grid_cls()
        dx = real_t(DX)
        for bi, bspec in enumerate(op["bodies"]):
            bd = {"kind": bspec["kind"], "I": None, "V": None, "t": bspec["t0"], "S_I": 0.0, "hist": []}
            kw = dict(eul_grid_forcing_field=s["E"], eul_grid_velocity_field=s["u"],
                      virtual_boundary_stiffness_coeff=bspec["k"], virtual_boundary_damping_coeff=bspec["c"], dx=dx, grid_dim=dim,
                      real_t=real_t, enable_eul_grid_forcing_reset=op["reset"], start_time=bspec["t0"],
                      num_threads=bspec.get("threads", False))
            with ctx.repo_call(f"constructing interaction for body {bi} ({bspec['kind']})"):
                if bspec["kind"].startswith("harness"):
                    n = 7 if bspec["kind"] == "harness7" else 33
                    src = {"pos": _marker_positions(bspec["fracs"], dim, n),
                           "vel": np.array([[bspec["vel"][(c * 3 + m) % 9] * (1 + 0.1 * m) for m in range(n)] for c in range(dim)]),
                           "spacing": float(bspec["spacing"])}
                    bd["src"] = src
                    bd["inter"] = spi.ImmersedBodyFlowInteraction(
                        body_flow_forces=np.zeros((3, 1)), body_flow_torques=np.zeros((3, 1)), forcing_grid_cls=Hcls, source=src, **kw)
                    bd["body"] = None
                    bd["spacing"] = float(bspec["spacing"])
                else:
                    geom = {"radius": bspec["radius"], "length": 0.5, "breadth": 0.5}
                    body = bodies.make_rigid("cylinder2d" if dim == 2 else "sphere", geom)
                    bd["body"] = body
                    _set_pose(bd, bspec["pose"], dim)
                    if dim == 2:
                        bd["inter"] = spi.RigidBodyFlowInteraction(rigid_body=body, forcing_grid_cls=spi.CircularCylinderForcingGrid,
                                                                   num_forcing_points=33, **kw)
                    else:
                        bd["inter"] = spi.RigidBodyFlowInteraction(rigid_body=body, forcing_grid_cls=spi.SphereForcingGrid,
                                                                   num_forcing_points_along_equator=8, **kw)
                    bd["spacing"] = float(bd["inter"].forcing_grid.get_maximum_lagrangian_grid_spacing())
                    # material offsets of the markers, read ONCE from the freshly constructed grid (C09 checks that geometry);
                    # from here on marker kinematics are recomputed from the body state, independently of the interaction
                    g0 = bd["inter"].forcing_grid
                    g0.compute_lag_grid_position_field()
                    x0 = np.zeros((3, g0.num_lag_nodes))
                    x0[:dim] = g0.position_field
                    rel = x0 - body.position_collection[:, :1]
                    bd["offsets"] = rel.copy() if dim == 3 else body.director_collection[:, :, 0] @ rel
            n = bd["inter"].forcing_grid.num_lag_nodes
            bd["n"] = n
            bd["I"] = np.zeros((dim, n))
            bd["V"] = np.zeros((dim, n))
            bd["F"] = np.zeros((dim, n))
            sc = bd["spacing"] ** (dim - 1)
            bd["ks"], bd["cs"] = bspec["k"] * sc, bspec["c"] * sc
            bd["S_V"] = 0.0
            if bd["inter"].eul_grid_velocity_field.flags.writeable:
                raise Violation("the interaction's view of the flow velocity is writeable")
            s["bodies"].append(bd)
        ctx.note(labels=[f"dim{dim}", op["dtype"], "reset" if op["reset"] else "accumulate", f"bodies{len(op['bodies'])}"]
                 + sorted({b["kind"] for b in op["bodies"]}))
        _check_all(s, "after construction")
        return
    if not s["bodies"]:
        return
    if kind == "feedback_cycle":
        for sub in ({"op": "evaluate_interaction", "b": op["b"]}, {"op": "time_step", "b": op["b"], "dt": op["dt"]},
                    {"op": "move_body", "b": op["b"], "fracs": op["fracs"], "vel": op["vel"], "pose": op["pose"]},
                    {"op": "evaluate_interaction", "b": op["b"]}):
            _step(s, sub, ctx)
        return
    dim, real_t = s["dim"], s["real_t"]
    bi = op.get("b", 0) % len(s["bodies"])
    bd = s["bodies"][bi]
    u_snap = s["u"].tobytes()
    body_snaps = [bodies.snapshot_body(b["body"]) if b["body"] is not None else None for b in s["bodies"]]
    src_snaps = [(b["src"]["pos"].copy(), b["src"]["vel"].copy()) if b.get("src") else None for b in s["bodies"]]

    def model_evaluate(with_spread):
        g = bd["inter"].forcing_grid
        # marker kinematics independently: harness grid = its source; rigid = C09 kinematics via the grid itself (checked in C09)
        X = g.position_field.copy()
        Xdot = g.velocity_field.copy()
        if bd["body"] is not None:
            b = bd["body"]
            Q = b.director_collection[:, :, 0]
            # 2-D cylinder: body-fixed markers x = X + Q^T s; sphere: markers keep their lab-frame offsets (C09)
            r = (Q.T @ bd["offsets"]) if dim == 2 else bd["offsets"]
            Xk = (b.position_collection[:, :1] + r)[:dim]
            om_lab = Q.T @ b.omega_collection[:, 0]
            Vk = (b.velocity_collection[:, :1] + np.cross(om_lab, r.T).T)[:dim]
            e64 = float(np.finfo(np.float64).eps)
            tolx = 256 * e64 * (float(np.max(np.abs(Xk))) + 1.0)
            tolv = 256 * e64 * (float(np.max(np.abs(Vk))) + float(np.linalg.norm(om_lab)) * float(np.max(np.abs(r))) + 1.0)
            if float(np.max(np.abs(X - Xk))) > tolx or float(np.max(np.abs(Xdot - Vk))) > tolv:
                raise Violation(f"body {bi}: the marker positions/velocities the interaction evaluated with are not those of the body state at "
                                f"evaluation time (max position deviation {float(np.max(np.abs(X - Xk))):.3e}, velocity deviation "
                                f"{float(np.max(np.abs(Xdot - Vk))):.3e}): the mismatch is not 'interpolated flow velocity minus body velocity'")
            X, Xdot = Xk, Vk
        if X.min() < 2 * DX or max(X[c].max() - (s["shape"][dim - 1 - c] - 2) * DX for c in range(dim)) > 0:
            raise Violation("harness error: marker left the admissible interior", key="__harness__")
        u64 = s["u"].astype(np.float64)
        bd["V"] = ibm.ref_interpolate(u64, X, DX, "cosine") - Xdot
        bd["S_V"] = float(np.max(np.abs(u64))) + float(np.max(np.abs(Xdot)))
        bd["F"] = bd["ks"] * bd["I"] + bd["cs"] * bd["V"]
        bd["S_F"] = abs(bd["ks"]) * bd["S_I"] + abs(bd["cs"]) * bd["S_V"]
        if with_spread:
            if s["reset"]:
                s["E_model"][...] = 0.0
                s["S_E"] = 0.0
                s["pending_since_consume"] = set()
            s["E_model"] += ibm.ref_spread(bd["F"], X, s["shape"], DX, "cosine")
            s["S_E"] += bd["S_F"] * min(bd["n"], 4**dim) / DX**dim

    if kind == "evaluate_interaction":
        with ctx.repo_call("interaction __call__"):
            bd["inter"]()
        model_evaluate(True)
        h = bd["hist"]
        if h and h[-1] == "eval":
            s["flags"]["repeat_eval"] = True
        if "eval" in h:
            since = h[len(h) - 1 - h[::-1].index("eval"):]
            if "step" in since:
                s["flags"]["eval_step_eval"] = True
                if "move" in since or "flow" in since:
                    s["flags"]["eval_step_eval_moved"] = True
        h.append("eval")
        s["pending_since_consume"].add(bi)
        if len(s["pending_since_consume"]) >= 2:
            s["flags"]["two_into_shared"] = True
    elif kind == "evaluate_body_forces":
        with ctx.repo_call("compute_flow_forces_and_torques"):
            bd["inter"].compute_flow_forces_and_torques()
        model_evaluate(False)
        tot = bd["inter"].body_flow_forces.sum(axis=1)[:dim]
        want = -bd["F"].sum(axis=1)
        tol = K_TOL * s["eps"] * (bd["S_F"] * bd["n"]) + 64 * float(np.finfo(real_t).tiny) * bd["n"]
        if np.any(np.abs(tot - want) > tol):
            raise Violation(f"body {bi}: net flow force {tot.tolist()} != -sum of PI marker forces {want.tolist()}")
        bd["hist"].append("eval")
    elif kind == "time_step":
        # dt as the example drivers pass it: a Python float, or a single-precision scalar (flow_dt / n of a float32 simulator)
        dt_obj = np.float32(op["dt"]) if op.get("dt_f32") else float(op["dt"])
        dt = float(dt_obj)
        with ctx.repo_call("interaction time_step"):
            bd["inter"].time_step(dt=dt_obj)
        bd["I"] = bd["I"] + dt * bd["V"]
        bd["S_I"] += dt * bd["S_V"]
        bd["t"] = bd["t"] + dt_obj  # the same addition, with the same operand types, as "simulation time advances by dt"
        bd["hist"].append("step")
    elif kind == "move_body":
        if bd.get("src"):
            n = bd["n"]
            bd["src"]["pos"][...] = _marker_positions(op["fracs"], dim, n)
            bd["src"]["vel"][...] = np.array([[op["vel"][(c * 3 + m) % 9] * (1 + 0.05 * m) for m in range(n)] for c in range(dim)])
        else:
            _set_pose(bd, op["pose"], dim)
        bd["hist"].append("move")
        _check_all(s, f"after {kind}", skip_body_snapshots={bi})
        return
    elif kind == "nudge_body":
        delta = 10.0 ** int(op["exp"]) * DX
        if bd.get("src"):
            n = bd["n"]
            shift = np.array([[op["dirs"][(c * 3 + m) % 9] for m in range(n)] for c in range(dim)]) * delta
            newpos = bd["src"]["pos"] + shift
            for c in range(dim):
                nc = s["shape"][dim - 1 - c]
                newpos[c] = np.clip(newpos[c], 2.0 * DX, (nc - 2.0) * DX)
            bd["src"]["pos"][...] = newpos
        else:
            bd["body"].position_collection[:dim, 0] += np.array(op["dirs"][:dim]) * delta
        bd["hist"].append("move")
        s["flags"]["nudged"] = True
        _check_all(s, f"after {kind}", skip_body_snapshots={bi})
        return
    elif kind == "change_flow":
        s["u"][...] = gen.build_vector_field(op["flow"][:dim], s["shape"], real_t)
        for b in s["bodies"]:
            b["hist"].append("flow")
        _check_all(s, f"after {kind}")
        return
    elif kind == "flow_consumes_forcing":
        s["E"][...] = 0
        s["E_model"][...] = 0.0
        s["S_E"] = 0.0
        s["pending_since_consume"] = set()
        _check_all(s, f"after {kind}")
        return
    else:
        raise ValueError(kind)
    # immutability of flow velocity and body state
    if s["u"].tobytes() != u_snap:
        raise Violation(f"{kind} modified the flow velocity field")
    for j, (b, snap, ss) in enumerate(zip(s["bodies"], body_snaps, src_snaps)):
        if snap is not None:
            bad = bodies.body_unchanged(b["body"], snap)
            if bad:
                raise Violation(f"{kind} on body {bi} modified state array {bad} of body {j}")
        if ss is not None and (b["src"]["pos"].tobytes() != ss[0].tobytes() or b["src"]["vel"].tobytes() != ss[1].tobytes()):
            raise Violation(f"{kind} on body {bi} modified the marker state of body {j}")
    _check_all(s, f"after {kind} on body {bi}")
    fl = s["flags"]
    ctx.note(nontrivial=fl["eval_step_eval_moved"], labels=[k for k, v in fl.items() if v])


def _check_all(s, when, skip_body_snapshots=()):
    eps = s["eps"]
    tiny = 64 * float(np.finfo(s["real_t"]).tiny)
    for j, b in enumerate(s["bodies"]):
        it = b["inter"]
        if it.time != b["t"]:
            raise Violation(f"{when}: body {j} forcing time {it.time!r} != sum of the dt values passed so far {b['t']!r}")
        for name, got, want, S in (
            ("lag_grid_position_mismatch_field", it.lag_grid_position_mismatch_field, b["I"], b["S_I"]),
            ("lag_grid_velocity_mismatch_field", it.lag_grid_velocity_mismatch_field, b["V"], b["S_V"]),
            ("lag_grid_forcing_field", it.lag_grid_forcing_field, b["F"], abs(b["ks"]) * b["S_I"] + abs(b["cs"]) * b["S_V"]),
        ):
            err = float(np.max(np.abs(got.astype(np.float64) - want)))
            tol = K_TOL * eps * S + tiny
            if not np.all(np.isfinite(got)) or err > tol:
                i = np.unravel_index(int(np.argmax(np.abs(got.astype(np.float64) - want))), want.shape)
                raise Violation(f"{when}: body {j} {name}{list(i)} = {float(got[i])!r} but the PI model gives {want[i]!r} (tol {tol:.3e})")
        if it.eul_grid_velocity_field.flags.writeable:
            raise Violation("the interaction's view of the flow velocity became writeable")
    err = float(np.max(np.abs(s["E"].astype(np.float64) - s["E_model"])))
    # the spread value is force * weight_x * weight_y (* weight_z) with each weight carrying 1/dx: an intermediate product below the
    # smallest normal number is flushed (-Ofast/numba fastmath-free but FTZ set by the compiled kernels) although the final value
    # would be 1/dx^dim times larger - the floor scales accordingly
    tol = K_TOL * eps * s["S_E"] + tiny * max(1.0, float(DX) ** -s["dim"]) * 16
    if not np.all(np.isfinite(s["E"])) or err > tol:
        i = np.unravel_index(int(np.argmax(np.abs(s["E"].astype(np.float64) - s["E_model"]))), s["E_model"].shape)
        raise Violation(f"{when}: shared Eulerian forcing field{list(i)} = {float(s['E'][i])!r} but the model (superposition of spread PI forces) "
                        f"gives {s['E_model'][i]!r} (tol {tol:.3e}, reset={s['reset']})")


def _machine(tier):
    return make_machine("VirtualBoundaryHistory", _new_state, _init_strategy(tier), _rules(tier), _step)


PARTS = [
    Part(name="pi_law_history", strategy=_machine, body=trace_body(_new_state, _step), stateful=True,
         examples={"quick": 320, "thorough": 6000}, shards={"quick": 16, "thorough": 16}, steps={"quick": 12, "thorough": 30}),
]
