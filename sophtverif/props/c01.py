"""C01 - a flow time step realises the documented vorticity-velocity discretisation."""

from __future__ import annotations

import numpy as np
from hypothesis import strategies as st

from .. import gen, simcfg
from ..refs import flow_step as ref
from ..runner import Part, Violation

PROPERTY_ID = "C01"
LEVEL = "exploration"
RULE = (
    "Hypothesis draws a simulator configuration (class in {2-D NS, 3-D NS, passive 2-D, passive 3-D scalar, "
    "passive 3-D vector} x precision x {forcing, free stream} x filter {off, multiplicative, convolution} x "
    "order 1..3 x Poisson solver x zone width 0..4 x nu, rho, initial time), a grid (free shape when width=0, "
    "palette of non-cubic geometries otherwise in the quick tier), constructed state fields (zero/constant/"
    "polynomial/bumps/spikes/checkerboard/noise/mixed, magnitudes 2^-6..2^6), free-stream vector, dt = "
    "frac*stable step with frac in [0.05,2], and 1 or 2 steps.  The real simulator (public constructor, "
    "time_step) is compared after every step with an independent float64 numpy reference of the documented "
    "operator sequence (sophtverif/refs/flow_step.py; Poisson: scipy fftconvolve with the sampled Green's "
    "function, or DCT-II for fast diagonalisation): |omega-ref| <= 64*eps*S_omega, |u-ref| <= 512*eps*S_u "
    "with S from the reference's absolute-value propagation; time == t0+dt exactly; forcing field == 0 "
    "bit-wise.  Non-trivial: vorticity and velocity both non-zero and at least one of {non-cubic grid, "
    "forcing on, filter on, width != 2, fast-diag, rho != 1}; passive: field and velocity non-zero with both "
    "upwind directions present.  Distinct = digest of the case."
    " Since session 3 the domain also holds: nu = 0, axis-aligned free streams, one-signed velocity components, amplitudes 2^-24..2^16, domain sizes 1e-9..1e3, one long axis, dt from the simulator's own query, default constructor arguments omitted, and part two_simulator_histories (two live simulators, interleaved steps / re-stated fields / queries / parameters changed on the live object)."
)
ASSUMPTIONS = [
    "state magnitudes in [2^-6, 2^6], dt within [0.05, 2] x the stable step, finite inputs (the JIT uses -Ofast)",
    "fast-diagonalisation velocity tolerance additionally scales with max extent (dense eigen-solver)",
]
BUDGET_S = {"quick": 170.0, "thorough": 3000.0}

K_W = 64.0
K_U = 512.0


def _strategy(kinds):
    def strat(tier):
        @st.composite
        def case(draw):
            cfg = draw(simcfg.ns_config(tier, kinds=kinds))
            dim = simcfg.sim_dim(cfg["sim"])
            ncomp_primary = {"ns2d": 1, "ns3d": 3, "passive2d": 1, "passive3d_scalar": 1, "passive3d_vector": 3}[cfg["sim"]]
            fk = ["constant", "poly", "bumps", "spikes", "checker", "noise", "mixed", "boxnoise", "stream"]
            return {
                "cfg": cfg,
                "primary": draw(gen.vector_field_spec(ncomp_primary, kinds=fk, max_mag_exp=6)),
                # passive transport: favour sign-changing velocities so that both upwind branches occur on the grid
                "velocity": draw(gen.vector_field_spec(dim, kinds=(fk + ["zero"]) if cfg["sim"].startswith("ns")
                                                       else ["poly", "noise", "mixed", "checker", "noise", "mixed", "constant", "stream"],
                                                       max_mag_exp=4)),
                "forcing": draw(gen.vector_field_spec(dim, kinds=fk + ["zero"], max_mag_exp=6)),
                "free_stream": draw(st.lists(st.one_of(gen.floats(-4.0, 4.0, 32), gen.floats(-4.0, 4.0, 32), st.just(0.0)), min_size=dim, max_size=dim)),
                "dt_frac": draw(gen.floats(0.05, 2.0, 32)),
                "steps": draw(st.sampled_from([1, 1, 1, 1, 2])),
                "fs_as_list": draw(st.booleans()),
                # dt = sim.compute_stable_timestep(frac) right before each step (the idiom of every example) or the harness' own
                "dt_from_sim": draw(st.booleans()),
                # overall power-of-two factor of the transported field / vorticity (weak blobs ... strong vortices): absolute
                # thresholds hidden in the code act differently at different amplitudes
                "primary_scale_exp": draw(st.one_of(st.just(0), st.just(0), st.integers(-24, 16))),
            }

        return case()

    return strat


def _cmp(name, got, want, tol, ctx, extra=""):
    # -Ofast kernels run with flush-to-zero: results below the smallest normal number may be flushed
    tol = tol + 64.0 * float(np.finfo(np.asarray(got).dtype).tiny)
    got64 = np.asarray(got, dtype=np.float64)
    if not np.all(np.isfinite(got64)):
        raise Violation(f"{name} contains non-finite values after the step {extra}")
    err = np.abs(got64 - want)
    m = float(np.max(err, initial=0.0))
    if tol > 0:
        ctx.extra[f"max_err_over_tol_{name}"] = max(ctx.extra.get(f"max_err_over_tol_{name}", 0.0), m / tol)
    if m > tol:
        i = np.unravel_index(int(np.argmax(err)), err.shape)
        raise Violation(f"{name}: |simulator - reference|_max = {m:.3e} > tol {tol:.3e} at index {tuple(int(q) for q in i)}: "
                        f"got {got64[i]!r}, reference {want[i]!r} {extra}")


def _body(case, ctx):
    cfg = case["cfg"]
    kind = cfg["sim"]
    dim = simcfg.sim_dim(kind)
    real_t = gen.np_dtype(cfg["dtype"])
    eps = float(np.finfo(real_t).eps)
    shape = tuple(cfg["shape"])
    desc = f"(cfg {cfg})"
    with ctx.repo_call(f"constructing simulator {kind} width={cfg['width']}",
                       key=f"penalise_field_boundary width={cfg['width']} raises" if cfg["width"] == 1 else None):
        sim = simcfg.build_sim(cfg)
    dx = float(sim.dx)
    is_ns = kind.startswith("ns")
    prim = simcfg.primary_field_of(sim, cfg)
    pf = gen.build_vector_field(case["primary"], shape, real_t) * real_t(2.0 ** int(case.get("primary_scale_exp", 0)))
    prim[...] = pf[0] if prim.ndim == dim else pf
    sim.velocity_field[...] = gen.build_vector_field(case["velocity"], shape, real_t)
    if is_ns and cfg["with_forcing"]:
        sim.eul_grid_forcing_field[...] = gen.build_vector_field(case["forcing"], shape, real_t)
    fs = np.array(case["free_stream"], dtype=np.float64)
    umax = float(np.max(np.sum(np.abs(sim.velocity_field.astype(np.float64)), axis=0)))
    dt = simcfg.stable_dt(cfg, dx, umax, case["dt_frac"])
    nontrivial = False
    for step in range(int(case["steps"])):
        w0 = prim.astype(np.float64).copy()
        u0 = sim.velocity_field.astype(np.float64).copy()
        t0 = sim.time
        if case.get("dt_from_sim", False):
            umax_now = float(np.max(np.sum(np.abs(u0), axis=0)))
            with ctx.repo_call("compute_stable_timestep"):
                dt = simcfg.choose_dt(sim, cfg, dx, umax_now, case["dt_frac"], True)
        if is_ns:
            f0 = sim.eul_grid_forcing_field.astype(np.float64).copy() if cfg["with_forcing"] else None
            want = ref.ns_step(cfg, dx, dt, w0, u0, f0, fs)
            fsarg = list(map(float, fs)) if case["fs_as_list"] else fs.copy()
            with ctx.repo_call(f"time_step (step {step})",
                               key="penalise_field_boundary width=1 raises" if cfg["width"] == 1 else None):
                sim.time_step(dt=dt, free_stream_velocity=fsarg)
            _cmp("vorticity", prim, want.vorticity, K_W * eps * want.S_vorticity, ctx, f"step {step} {desc}")
            ku = K_U
            _cmp("velocity", sim.velocity_field, want.velocity, ku * eps * want.S_velocity, ctx, f"step {step} {desc}")
            if cfg["with_forcing"] and np.any(sim.eul_grid_forcing_field.view(np.uint8)):
                raise Violation(f"body-forcing field is not identically zero on return {desc}")
            both_nonzero = bool(np.any(w0)) and bool(np.any(u0))
            feature = (len(set(shape)) > 1 or cfg["with_forcing"] or bool(cfg["filter"]) or cfg["width"] != 2
                       or cfg["poisson"] == "fast_diagonalisation" or cfg["rho"] != 1.0)
            nontrivial = nontrivial or (both_nonzero and feature)
        else:
            want = ref.passive_step(cfg, dx, dt, w0, u0)
            with ctx.repo_call(f"time_step (step {step})"):
                sim.time_step(dt=dt)
            _cmp("primary", prim, want.primary, K_W * eps * want.S_primary, ctx, f"step {step} {desc}")
            if sim.velocity_field.astype(np.float64).tobytes() != u0.tobytes():
                raise Violation("passive transport modified its velocity field")
            pos = all(bool(np.any(u0[c] > 0)) and bool(np.any(u0[c] < 0)) for c in range(dim))
            nontrivial = nontrivial or (bool(np.any(w0)) and pos)
        if sim.time != t0 + dt:
            raise Violation(f"simulator time {sim.time!r} != t0 + dt = {t0 + dt!r} {desc}")
    labels = simcfg.config_labels(cfg) + [f"steps{case['steps']}", "dt_from_simulator" if case.get("dt_from_sim") else "dt_from_harness"]
    if case.get("primary_scale_exp", 0):
        labels.append("amplitude_small" if case["primary_scale_exp"] < 0 else "amplitude_large")
    ctx.note(nontrivial=nontrivial, labels=labels)


# ------------------------------------------------------------------------------------------------
# histories: two live simulators of the same class/shape/precision but different physical parameters, interleaved
# ------------------------------------------------------------------------------------------------


def _hist_strategy(kinds):
    def strat(tier):
        @st.composite
        def case(draw):
            cfg_a = draw(simcfg.ns_config(tier, kinds=kinds, n_max={2: 20, 3: 10} if tier == "quick" else None))
            dim = simcfg.sim_dim(cfg_a["sim"])
            is_ns = cfg_a["sim"].startswith("ns")
            cfg_b = dict(cfg_a)
            cfg_b["nu"] = draw(gen.log_uniform(1e-4, 1.0))
            cfg_b["time0"] = draw(st.sampled_from([0.0, 2.5, 77.125]))
            if is_ns:
                cfg_b["rho"] = draw(gen.nice_or_log(0.1, 10.0, nice=(1.0,)))
                cfg_b["with_free_stream"] = draw(st.booleans())
                cfg_b["with_forcing"] = draw(st.booleans())
                if cfg_a["width"] == 0:  # damping kernels embed the geometry: keep it when width > 0 (compile cost)
                    cfg_b["x_range"] = draw(st.one_of(gen.nice_or_log(0.1, 10.0, nice=(1.0,)), gen.log_uniform(1e-3, 1e3)))
                if cfg_a["sim"] == "ns3d":
                    cfg_b["filter"] = draw(st.one_of(st.none(), st.fixed_dictionaries(
                        {"type": st.sampled_from(["multiplicative", "convolution"]), "order": st.integers(1, 3)})))
                    cfg_b["poisson"] = draw(st.sampled_from(["greens_function_convolution", "fast_diagonalisation"]))
            else:
                cfg_b["x_range"] = draw(st.one_of(gen.nice_or_log(0.1, 10.0, nice=(1.0,)), gen.log_uniform(1e-3, 1e3)))
            ncomp = {"ns2d": 1, "ns3d": 3, "passive2d": 1, "passive3d_scalar": 1, "passive3d_vector": 3}[cfg_a["sim"]]
            fk = ["constant", "poly", "bumps", "spikes", "checker", "noise", "mixed", "boxnoise"]
            state = st.fixed_dictionaries({
                "primary": gen.vector_field_spec(ncomp, kinds=fk, max_mag_exp=5),
                "velocity": gen.vector_field_spec(dim, kinds=["poly", "noise", "mixed", "checker", "constant", "bumps", "stream"], max_mag_exp=3),
            })
            op = st.one_of(
                st.fixed_dictionaries({"op": st.just("step"), "who": st.integers(0, 1),
                                       "dt_frac": gen.floats(0.05, 1.5, 32),
                                       "free_stream": st.lists(st.one_of(gen.floats(-4.0, 4.0, 32), gen.floats(-4.0, 4.0, 32), st.just(0.0)), min_size=dim, max_size=dim),
                                       "forcing": st.one_of(st.none(), gen.vector_field_spec(dim, kinds=fk, max_mag_exp=5))}),
                st.fixed_dictionaries({"op": st.just("step"), "who": st.integers(0, 1),
                                       "dt_frac": gen.floats(0.05, 1.5, 32),
                                       "free_stream": st.lists(st.one_of(gen.floats(-4.0, 4.0, 32), gen.floats(-4.0, 4.0, 32), st.just(0.0)), min_size=dim, max_size=dim),
                                       "forcing": st.none()}),
                st.fixed_dictionaries({"op": st.just("restate"), "who": st.integers(0, 1), "state": state}),
                st.fixed_dictionaries({"op": st.just("query"), "who": st.integers(0, 1),
                                       "prefac": gen.floats(0.05, 1.0, 32)}),
                # a parameter ramp on the live object: the public attributes time_step() reads (viscosity, density) are changed
                st.fixed_dictionaries({"op": st.just("retune"), "who": st.integers(0, 1), "nu": gen.log_uniform(1e-4, 1.0),
                                       "rho": gen.nice_or_log(0.1, 10.0, nice=(1.0,))}),
            )
            return {"cfg_a": cfg_a, "cfg_b": cfg_b, "init": [draw(state), draw(state)],
                    "ops": draw(st.lists(op, min_size=3, max_size=7))}

        return case()

    return strat


def _hist_body(case, ctx):
    cfgs = [case["cfg_a"], case["cfg_b"]]
    kind = cfgs[0]["sim"]
    dim = simcfg.sim_dim(kind)
    is_ns = kind.startswith("ns")
    real_t = gen.np_dtype(cfgs[0]["dtype"])
    eps = float(np.finfo(real_t).eps)
    shape = tuple(cfgs[0]["shape"])
    sims = []
    for cfg in cfgs:
        with ctx.repo_call(f"constructing simulator {kind}"):
            sims.append(simcfg.build_sim(cfg))

    def set_state(i, spec):
        prim = simcfg.primary_field_of(sims[i], cfgs[i])
        pf = gen.build_vector_field(spec["primary"], shape, real_t)
        prim[...] = pf[0] if prim.ndim == dim else pf
        sims[i].velocity_field[...] = gen.build_vector_field(spec["velocity"], shape, real_t)

    for i in (0, 1):
        set_state(i, case["init"][i])
    steps_of = [0, 0]
    interleaved = False
    last_stepper = None
    for k, op in enumerate(case["ops"]):
        i = int(op["who"])
        sim, cfg = sims[i], cfgs[i]
        dx = float(sim.dx)
        desc = f"(history op {k} {op['op']} on simulator {i}; cfgs {cfgs})"
        prim = simcfg.primary_field_of(sim, cfg)
        other = sims[1 - i]
        other_snap = (simcfg.primary_field_of(other, cfgs[1 - i]).tobytes(), other.velocity_field.tobytes(), other.time)
        if op["op"] == "restate":
            set_state(i, op["state"])
        elif op["op"] == "retune":
            sim.kinematic_viscosity = float(op["nu"])
            cfgs[i] = cfg = dict(cfg, nu=float(op["nu"]))
            if is_ns:
                sim.flow_density = float(op["rho"])
                cfgs[i] = cfg = dict(cfg, rho=float(op["rho"]))
            ctx.note(labels=["parameters_changed_on_live_simulator"])
        elif op["op"] == "query":
            w0, u0 = prim.tobytes(), sim.velocity_field.tobytes()
            with ctx.repo_call("compute_stable_timestep"):
                d1 = sim.compute_stable_timestep(dt_prefac=op["prefac"])
            if is_ns and dim == 3:
                with ctx.repo_call("get_vorticity_divergence_l2_norm"):
                    sim.get_vorticity_divergence_l2_norm()
            if not (np.isfinite(d1) and d1 > 0):
                raise Violation(f"stable time step {d1!r} not finite/positive {desc}")
            # the limits of THIS simulator (its own velocity, viscosity, spacing), whatever other simulators are alive
            um = float(np.max(np.sum(np.abs(sim.velocity_field.astype(np.float64)), axis=0)))
            pre = float(op["prefac"])
            if float(d1) * um / dx > pre * float(sim.cfl) * (1 + 64 * eps):
                raise Violation(f"stable time step {d1!r} exceeds the CFL limit of this simulator (max|u|_1 {um!r}, dx {dx!r}, cfl {sim.cfl!r}, "
                                f"prefactor {pre!r}) {desc}")
            if cfg["nu"] * float(d1) / dx**2 > pre * 0.9 / (2 * dim) * (1 + 64 * eps):
                raise Violation(f"stable time step {d1!r} exceeds the diffusion limit of this simulator (nu {cfg['nu']!r}, dx {dx!r}, "
                                f"prefactor {pre!r}) {desc}")
            if prim.tobytes() != w0 or sim.velocity_field.tobytes() != u0:
                raise Violation(f"a query changed the flow state {desc}")
        else:
            w0 = prim.astype(np.float64).copy()
            u0 = sim.velocity_field.astype(np.float64).copy()
            t0 = sim.time
            umax = float(np.max(np.sum(np.abs(u0), axis=0)))
            dt = simcfg.stable_dt(cfg, dx, umax, op["dt_frac"])
            if is_ns:
                f0 = None
                if cfg["with_forcing"]:
                    if op["forcing"] is not None:
                        sim.eul_grid_forcing_field[...] = gen.build_vector_field(op["forcing"], shape, real_t)
                    f0 = sim.eul_grid_forcing_field.astype(np.float64).copy()
                fs = np.array(op["free_stream"], dtype=np.float64)
                want = ref.ns_step(cfg, dx, dt, w0, u0, f0, fs)
                with ctx.repo_call(f"time_step {desc}",
                                   key="penalise_field_boundary width=1 raises" if cfg["width"] == 1 else None):
                    sim.time_step(dt=dt, free_stream_velocity=fs.copy())
                _cmp("vorticity", prim, want.vorticity, K_W * eps * want.S_vorticity, ctx, desc)
                _cmp("velocity", sim.velocity_field, want.velocity, K_U * eps * want.S_velocity, ctx, desc)
                if cfg["with_forcing"] and np.any(sim.eul_grid_forcing_field.view(np.uint8)):
                    raise Violation(f"body-forcing field is not identically zero on return {desc}")
            else:
                want = ref.passive_step(cfg, dx, dt, w0, u0)
                with ctx.repo_call(f"time_step {desc}"):
                    sim.time_step(dt=dt)
                _cmp("primary", prim, want.primary, K_W * eps * want.S_primary, ctx, desc)
                if sim.velocity_field.astype(np.float64).tobytes() != u0.tobytes():
                    raise Violation(f"passive transport modified its velocity field {desc}")
            if sim.time != t0 + dt:
                raise Violation(f"simulator time {sim.time!r} != t0 + dt = {t0 + dt!r} {desc}")
            steps_of[i] += 1
            if last_stepper is not None and last_stepper != i:
                interleaved = True
            last_stepper = i
        if (simcfg.primary_field_of(other, cfgs[1 - i]).tobytes(), other.velocity_field.tobytes(), other.time) != other_snap:
            raise Violation(f"an operation on one simulator changed the state of another live simulator {desc}")
    ctx.note(nontrivial=interleaved and min(steps_of) >= 1,
             labels=[kind, f"steps_total_{min(sum(steps_of), 5)}", "interleaved" if interleaved else "not_interleaved",
                     "second_step_on_same_object" if max(steps_of) >= 2 else "single_steps"])


PARTS = [
    Part(name="ns2d_step", strategy=_strategy(["ns2d"]), body=_body,
         examples={"quick": 160, "thorough": 4000}, shards={"quick": 4, "thorough": 12}),
    Part(name="ns3d_step", strategy=_strategy(["ns3d"]), body=_body,
         examples={"quick": 96, "thorough": 2400}, shards={"quick": 8, "thorough": 16}),
    Part(name="passive_step", strategy=_strategy(["passive2d", "passive3d_scalar", "passive3d_vector"]), body=_body,
         examples={"quick": 120, "thorough": 3000}, shards={"quick": 4, "thorough": 8}),
    Part(name="two_simulator_histories", strategy=_hist_strategy(["ns2d", "ns3d", "passive2d", "passive3d_scalar",
                                                                   "passive3d_vector"]), body=_hist_body,
         examples={"quick": 64, "thorough": 1600}, shards={"quick": 4, "thorough": 12}),
]
