"""C03 - unbounded Poisson solve equals the free-space Green's-function convolution."""

from __future__ import annotations

import numpy as np
from hypothesis import strategies as st

from .. import gen
from ..refs import poisson as ref
from ..runner import Part, Violation
from ..stateful import make_machine, trace_body

PROPERTY_ID = "C03"
LEVEL = "exploration"
RULE = (
    "Hypothesis stateful machine per solver object: init draws dim in {2,3}, every extent "
    "independently (2..20 in 2-D, 2..9 in 3-D quick; 2..48 / 2..16 thorough), x_range over 4 decades (a third of the cases over 12 decades, 1e-8..1e4), "
    "precision, thread count; rules solve(rhs)/vector_solve(rhs3)/scribble(buffer,value)/"
    "impulse_pair(a,b)/second_solver(factor: another live solver object of the same shape and precision "
    "but another domain size)/switch_solver; after every solve the result is compared with the O(N^2) direct aperiodic "
    "convolution with the sampled Green's function (float64, scipy.signal.convolve method=direct). "
    "A history is non-trivial when the grid is non-square/non-cubic or has an odd extent AND "
    "(it contains >= 2 solves with different right-hand sides OR a scribble before a solve OR an "
    "impulse pair); distinct = digest of the whole operation trace."
)
ASSUMPTIONS = [
    "norm-wise tolerance 128*eps(real_t)*dx^d*||G||_2*||f||_2 (+ 4*eps*|ref| for the final cast); FFTW trusted",
    "right-hand sides are finite with magnitudes in [2^-12, 2^12]",
]
BUDGET_S = {"quick": 150.0, "thorough": 2400.0}

K_TOL = 128.0


def _new_state(ctx):
    return {"solver": None}


def _bounds(tier):
    if tier == "thorough":
        return {2: (2, 48), 3: (2, 16)}
    return {2: (2, 20), 3: (2, 9)}


def _init_strategy(tier):
    b = _bounds(tier)

    @st.composite
    def init(draw):
        dim = draw(st.sampled_from([2, 3]))
        lo, hi = b[dim]
        shape = draw(gen.grid_shape(dim, lo, hi, long_axis=70 if dim == 2 else 40))
        return {
            "dim": dim,
            "shape": shape,
            # domain lengths from micro-scale set-ups (spacing below the machine epsilon of single precision) to kilometres
            "x_range": draw(st.one_of(gen.nice_or_log(1e-2, 1e2, nice=(1.0,)), gen.nice_or_log(1e-2, 1e2, nice=(1.0,)), gen.log_uniform(1e-8, 1e4), gen.log_uniform(1e-9, 1e-5))),  # last: spacing around / below eps(float32)
            "dtype": draw(gen.precisions),
            "threads": draw(st.sampled_from([1, 2, 4])),
        }

    return init()


def _rules(tier):
    fs = gen.field_spec(max_mag_exp=12, allow_zero=True)
    frac = gen.floats(0.0, 1.0, 32)
    return {
        "solve": ({"rhs": fs, "prefill": st.sampled_from([0.0, 1e30, -7.5])}, None),
        "vector_solve": ({"rhs": gen.vector_field_spec(3, max_mag_exp=12)},
                         lambda s: s.get("dim") == 3),
        "scribble": ({"which": st.integers(0, 2), "value": st.sampled_from([1.0, -3.0e7, 1e30])}, None),
        "impulse_pair": ({"a": st.lists(frac, min_size=3, max_size=3),
                          "b": st.lists(frac, min_size=3, max_size=3),
                          "amp_exp": st.integers(-8, 8)}, None),
        # a second solver object of the same grid shape and precision but another domain size (two simulations, or a
        # refinement study, in one process); "switch_solver" goes back and forth between the live objects
        "second_solver": ({"factor": st.one_of(st.sampled_from([0.4, 2.5]), gen.log_uniform(0.05, 20.0)),
                           "threads": st.sampled_from([1, 2])}, lambda s: s.get("solver") is not None and len(s.get("others", [])) < 2),
        "switch_solver": ({"which": st.integers(0, 1)}, lambda s: len(s.get("others", [])) > 0),
    }


def _check_solution(st_, sol, rhs, what):
    dx = st_["dx64"]
    dim = st_["dim"]
    eps = float(np.finfo(st_["real_t"]).eps)
    f64 = rhs.astype(np.float64)
    expect = ref.free_space_solve(f64, dx, kernel=st_["G"])
    scale = dx**dim * st_["Gnorm"] * float(np.linalg.norm(f64))
    # flush-to-zero arithmetic of the -Ofast kernels / FFTW: absolute floor of a few smallest normal numbers
    tol = K_TOL * eps * scale + 4 * eps * float(np.max(np.abs(expect), initial=0.0)) + 64 * float(np.finfo(st_["real_t"]).tiny)
    err = float(np.max(np.abs(sol.astype(np.float64) - expect), initial=0.0))
    if tol > 0:
        st_["ctx"].extra["max_err_over_tol"] = max(st_["ctx"].extra.get("max_err_over_tol", 0.0), err / tol)
    if not np.all(np.isfinite(sol)) or err > tol:
        idx = np.unravel_index(int(np.argmax(np.abs(sol.astype(np.float64) - expect))), sol.shape)
        raise Violation(
            f"{what}: |solve - Green's convolution|_max = {err:.3e} > tol {tol:.3e} at cell {tuple(int(i) for i in idx)} "
            f"(shape {list(sol.shape)}, dx {dx:.4g}, dtype {st_['real_t'].__name__})"
        )


def _step(s, op, ctx):
    import sopht.numeric.eulerian_grid_ops as spne

    kind = op["op"]
    s["ctx"] = ctx

    def _construct(dim, shape, real_t, x_range, threads):
        with ctx.repo_call("constructing the unbounded Poisson solver"):
            if dim == 2:
                solver = spne.UnboundedPoissonSolverPYFFTW2D(
                    grid_size_y=shape[0], grid_size_x=shape[1], x_range=x_range,
                    num_threads=threads, real_t=real_t)
            else:
                solver = spne.UnboundedPoissonSolverPYFFTW3D(
                    grid_size_z=shape[0], grid_size_y=shape[1], grid_size_x=shape[2],
                    x_range=x_range, num_threads=threads, real_t=real_t)
        dx64 = float(x_range) / shape[-1]
        G = ref.greens_separation_kernel(shape, dx64)
        return {"solver": solver, "dx64": dx64, "G": G, "Gnorm": float(np.linalg.norm(G)), "x_range": float(x_range), "used": False}

    if kind == "init":
        dim = op["dim"]
        shape = tuple(op["shape"])
        real_t = gen.np_dtype(op["dtype"])
        cur = _construct(dim, shape, real_t, op["x_range"], op["threads"])
        s.update(cur)
        s.update(dim=dim, shape=shape, real_t=real_t, n_solves=0, rhs_digests=set(), scribbled=False,
                 scribble_then_solve=False, impulse=False, others=[], objects_used=set())
        ctx.note(labels=[f"dim{dim}", op["dtype"],
                         "noncubic" if len(set(shape)) > 1 else "cubic",
                         "odd_extent" if any(n % 2 for n in shape) else "even_extents"])
        return
    shape, real_t, dim = s["shape"], s["real_t"], s["dim"]
    if kind in ("second_solver", "switch_solver"):
        keys = ("solver", "dx64", "G", "Gnorm", "x_range")
        old = {k: s[k] for k in keys}
        if kind == "second_solver":
            new = _construct(dim, shape, real_t, float(real_t(s["x_range"] * op["factor"])), op["threads"])
            ctx.note(labels=["second_solver_same_shape_other_spacing"])
        else:
            new = s["others"].pop(op["which"] % len(s["others"]))
            ctx.note(labels=["switch_solver"])
        s["others"].append(old)
        s.update({k: new[k] for k in keys})
        return
    solver = s["solver"]

    def _after_solve(rhs_digest):
        s["n_solves"] += 1
        s["objects_used"].add(id(solver))
        if len(s["objects_used"]) >= 2:
            ctx.note(labels=["solves_on_two_live_solver_objects"])
        s["rhs_digests"].add(rhs_digest)
        if s["scribbled"]:
            s["scribble_then_solve"] = True
        geom = len(set(shape)) > 1 or any(n % 2 for n in shape)
        hist = len(s["rhs_digests"]) >= 2 or s["scribble_then_solve"] or s["impulse"]
        ctx.note(nontrivial=geom and hist)

    if kind == "solve":
        rhs = gen.build_field(op["rhs"], shape, real_t)
        rhs0 = rhs.copy()
        sol = np.full(shape, op["prefill"], dtype=real_t)
        with ctx.repo_call("solve()"):
            solver.solve(solution_field=sol, rhs_field=rhs)
        if rhs.tobytes() != rhs0.tobytes():
            raise Violation("solve() modified its right-hand side")
        _check_solution(s, sol, rhs, f"solve #{s['n_solves']}")
        ctx.note(labels=["solve", "rhs_" + op["rhs"]["kind"]])
        if np.any(rhs[-1] != 0) or np.any(rhs[..., -1] != 0):
            ctx.note(labels=["rhs_touches_last_row_or_col"])
        _after_solve(hash(rhs.tobytes()))
    elif kind == "vector_solve":
        rhs = gen.build_vector_field(op["rhs"], shape, real_t)
        sol = np.full((3, *shape), 1e30, dtype=real_t)
        with ctx.repo_call("vector_field_solve()"):
            solver.vector_field_solve(solution_vector_field=sol, rhs_vector_field=rhs)
        for c in range(3):
            _check_solution(s, sol[c], rhs[c], f"vector_field_solve component {c}")
        # equals three independent scalar solves on the same object, bit-wise
        sol2 = np.zeros_like(sol)
        for c in range(3):
            with ctx.repo_call("solve()"):
                solver.solve(solution_field=sol2[c], rhs_field=rhs[c])
        if sol.tobytes() != sol2.tobytes():
            raise Violation("vector_field_solve differs bit-wise from three scalar solves")
        ctx.note(labels=["vector_solve"])
        _after_solve(hash(rhs.tobytes()))
    elif kind == "scribble":
        bufs = [solver.domain_doubled_buffer, solver.convolution_buffer,
                solver.domain_doubled_fourier_buffer]
        bufs[op["which"]][...] = op["value"]
        s["scribbled"] = True
        ctx.note(labels=[f"scribble{op['which']}"])
    elif kind == "impulse_pair":
        ia = tuple(min(n - 1, int(f * n)) for f, n in zip(op["a"][-dim:], shape))
        ib = tuple(min(n - 1, int(f * n)) for f, n in zip(op["b"][-dim:], shape))
        amp = real_t(2.0 ** op["amp_exp"])
        fa = np.zeros(shape, dtype=real_t)
        fb = np.zeros(shape, dtype=real_t)
        fa[ia] = amp
        fb[ib] = amp
        ua = np.zeros(shape, dtype=real_t)
        ub = np.zeros(shape, dtype=real_t)
        with ctx.repo_call("solve()"):
            solver.solve(solution_field=ua, rhs_field=fa)
            solver.solve(solution_field=ub, rhs_field=fb)
        _check_solution(s, ua, fa, "impulse a")
        _check_solution(s, ub, fb, "impulse b")
        eps = float(np.finfo(real_t).eps)
        dx = s["dx64"]
        scale = dx**dim * s["Gnorm"] * float(amp)
        # reciprocity
        tiny = 64 * float(np.finfo(real_t).tiny)
        if abs(float(ua[ib]) - float(ub[ia])) > 2 * K_TOL * eps * scale + tiny:
            raise Violation(f"reciprocity broken: u^a[b]={float(ua[ib])!r} u^b[a]={float(ub[ia])!r} a={ia} b={ib}")
        # no periodic images: response equals h^d G(separation) * amp
        sep = tuple(int(q - p) + (n - 1) for p, q, n in zip(ia, ib, shape))
        expect = dx**dim * float(s["G"][sep]) * float(amp)
        if abs(float(ua[ib]) - expect) > K_TOL * eps * scale + 4 * eps * abs(expect) + tiny:
            raise Violation(f"impulse response at {ib} from {ia} is {float(ua[ib])!r}, free-space value {expect!r} (images?)")
        s["impulse"] = True
        corner = all(i in (0, n - 1) for i, n in zip(ia, shape)) and all(i in (0, n - 1) for i, n in zip(ib, shape))
        ctx.note(labels=["impulse_pair"] + (["corner_to_corner"] if corner and ia != ib else []))
        _after_solve(hash(fa.tobytes()))
        _after_solve(hash(fb.tobytes()))
    else:
        raise ValueError(kind)


def _machine(tier):
    return make_machine("PoissonSolverHistory", _new_state, _init_strategy(tier), _rules(tier), _step)


PARTS = [
    Part(
        name="solver_history_vs_direct_convolution",
        strategy=_machine,
        body=trace_body(_new_state, _step),
        examples={"quick": 120, "thorough": 4000},
        shards={"quick": 8, "thorough": 16},
        stateful=True,
        steps={"quick": 8, "thorough": 12},
    ),
]
