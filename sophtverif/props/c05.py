"""C05 - finite-difference operators are consistent with their continuous counterparts."""

from __future__ import annotations

from fractions import Fraction

import numpy as np
from hypothesis import strategies as st

from .. import capture, gen, kernels
from ..interp import eval_assignments_exact
from ..refs.polynomials import MONO3_DEG3, Poly, laplacian
from ..runner import Part, Violation

PROPERTY_ID = "C05"
LEVEL = "exploration"
RULE = (
    "Part exact_stencils: for every differential stencil captured from the kernel generators (2-D/3-D "
    "diffusion, in-plane/out-of-plane curls, 3-D curl x/y/z, divergence, vorticity updates from forcing and "
    "from penalised velocity, vortex stretching, the three 1-D filter Laplacians, the 4+6 ENO3 face kernels) "
    "Hypothesis draws rational polynomial coefficients (all monomials of total degree <= 2 in x,y[,z]; "
    "degree <= 3 nodal flux for ENO), a rational spacing h, rational prefactors and a cell index; the "
    "captured assignments are evaluated in exact rational arithmetic (sophtverif.interp) and must EQUAL the "
    "analytic derivative computed by an independent polynomial class. Non-trivial: every degree-2 monomial "
    "(incl. mixed) of every bound polynomial has a non-zero coefficient; for ENO additionally the nodal flux "
    "has degree >= 2. Part compiled_wrappers: the public compiled wrappers run on float64 grids holding such "
    "polynomials sampled on the simulator-convention position field (non-cubic shapes); interior cells are "
    "compared with the analytic operator within 64*eps*S; the Laplacian-filter generator (both types, orders 1..5, scalar/vector) "
    "is run on quadratics and compared deep in the interior with q + (h^2/4) lap q (convolution, order 1) resp. q. "
    "Distinct = digest of the drawn case."
)
ASSUMPTIONS = [
    "float literals in stencils (0.8333..., 0.25, 0.5) are rationalised with limit_denominator(10**6)",
    "exact part is a randomized polynomial-identity test, not a symbolic proof",
]
BUDGET_S = {"quick": 150.0, "thorough": 1800.0}

X, Y, Z = 0, 1, 2


def _pt(cell, h, dim):
    """cell index (.., iy, ix) -> (x, y, z) of the cell centre; x is the LAST array axis."""
    half = Fraction(1, 2)
    if dim == 2:
        iy, ix = cell
        return (h * (ix + half), h * (iy + half), Fraction(0))
    iz, iy, ix = cell
    return (h * (ix + half), h * (iy + half), h * (iz + half))


def _curl(F, c):
    fx, fy, fz = F
    if c == X:
        return fz.d(Y) - fy.d(Z)
    if c == Y:
        return fx.d(Z) - fz.d(X)
    return fy.d(X) - fx.d(Y)


class Spec:
    def __init__(self, name, dim, stencils, bind, expected, symbols=("prefactor",), kind="central"):
        self.name, self.dim, self.stencils, self.bind = name, dim, stencils, bind
        self.expected, self.symbols, self.kind = expected, symbols, kind


def _specs():
    S = []
    two_h = lambda h: 2 * h  # noqa: E731
    # ---------------- 2-D
    S.append(Spec("diffusion_2d", 2, ["_diffusion_stencil_2d"], {"field": "f"},
                  lambda P, pt, h, s: s["prefactor"] * h * h * laplacian(P["f"], 2)(*pt)))
    S.append(Spec("inplane_curl_2d", 2, ["_inplane_field_curl_stencil_2d"], {"field_x": "Fx", "field_y": "Fy"},
                  lambda P, pt, h, s: s["prefactor"] * two_h(h) * (P["Fy"].d(X) - P["Fx"].d(Y))(*pt)))
    S.append(Spec("outplane_curl_x_2d", 2, ["_outplane_field_curl_x_stencil_2d"], {"field": "f"},
                  lambda P, pt, h, s: s["prefactor"] * two_h(h) * P["f"].d(Y)(*pt)))
    S.append(Spec("outplane_curl_y_2d", 2, ["_outplane_field_curl_y_stencil_2d"], {"field": "f"},
                  lambda P, pt, h, s: -s["prefactor"] * two_h(h) * P["f"].d(X)(*pt)))
    S.append(Spec("update_vorticity_from_forcing_2d", 2, ["_update_vorticity_from_velocity_forcing_stencil_2d"],
                  {"vorticity_field": "w0", "velocity_forcing_field_x": "Fx", "velocity_forcing_field_y": "Fy"},
                  lambda P, pt, h, s: P["w0"](*pt) + s["prefactor"] * two_h(h) * (P["Fy"].d(X) - P["Fx"].d(Y))(*pt)))
    S.append(Spec("update_vorticity_from_penalised_2d", 2, ["_update_vorticity_from_penalised_velocity_stencil_2d"],
                  {"vorticity_field": "w0", "penalised_velocity_field_x": "Gx", "penalised_velocity_field_y": "Gy",
                   "velocity_field_x": "Fx", "velocity_field_y": "Fy"},
                  lambda P, pt, h, s: P["w0"](*pt) + s["prefactor"] * two_h(h)
                  * ((P["Gy"] - P["Fy"]).d(X) - (P["Gx"] - P["Fx"]).d(Y))(*pt)))
    # ---------------- 3-D
    S.append(Spec("diffusion_3d", 3, ["_diffusion_stencil_3d"], {"field": "f"},
                  lambda P, pt, h, s: s["prefactor"] * h * h * laplacian(P["f"], 3)(*pt)))
    for c, cn in ((X, "x"), (Y, "y"), (Z, "z")):
        others = [n for n in "xyz" if n != cn]
        S.append(Spec(f"curl_{cn}_3d", 3, [f"_curl_{cn}_comp_stencil_3d"],
                      {f"field_{o}": f"F{o}" for o in others},
                      lambda P, pt, h, s, c=c: s["prefactor"] * two_h(h) * _curl((P["Fx"], P["Fy"], P["Fz"]), c)(*pt)))
        S.append(Spec(f"update_vorticity_from_forcing_{cn}_3d", 3,
                      [f"_update_vorticity_from_velocity_forcing_{cn}_comp_stencil_3d"],
                      {f"vorticity_field_{cn}": "w0", **{f"velocity_forcing_field_{o}": f"F{o}" for o in others}},
                      lambda P, pt, h, s, c=c: P["w0"](*pt) + s["prefactor"] * two_h(h)
                      * _curl((P["Fx"], P["Fy"], P["Fz"]), c)(*pt)))
        S.append(Spec(f"update_vorticity_from_penalised_{cn}_3d", 3,
                      [f"_update_vorticity_from_penalised_velocity_{cn}_comp_stencil_3d"],
                      {f"vorticity_field_{cn}": "w0", **{f"velocity_field_{o}": f"F{o}" for o in others},
                       **{f"penalised_velocity_field_{o}": f"G{o}" for o in others}},
                      lambda P, pt, h, s, c=c: P["w0"](*pt) + s["prefactor"] * two_h(h)
                      * _curl((P["Gx"] - P["Fx"], P["Gy"] - P["Fy"], P["Gz"] - P["Fz"]), c)(*pt)))
        S.append(Spec(f"filter_laplacian_{cn}_3d", 3, [f"_laplacian_filter_3d_{cn}"], {"field": "f"},
                      lambda P, pt, h, s, c=c: -(h * h / 4) * P["f"].d(c).d(c)(*pt), symbols=()))
    S.append(Spec("divergence_3d", 3, ["_divergence_stencil_3d"],
                  {"field_x": "Fx", "field_y": "Fy", "field_z": "Fz"},
                  lambda P, pt, h, s: Fraction(1, 2) * s["inv_dx"] * two_h(h)
                  * (P["Fx"].d(X) + P["Fy"].d(Y) + P["Fz"].d(Z))(*pt), symbols=("inv_dx",)))
    S.append(Spec("vorticity_stretching_3d", 3, ["_vorticity_stretching_flux_single_comp_stencil_3d"],
                  {"velocity_field_comp": "f", "vorticity_field_x": "Wx", "vorticity_field_y": "Wy",
                   "vorticity_field_z": "Wz"},
                  lambda P, pt, h, s: s["prefactor"] * two_h(h)
                  * (P["Wx"](*pt) * P["f"].d(X)(*pt) + P["Wy"](*pt) * P["f"].d(Y)(*pt)
                     + P["Wz"](*pt) * P["f"].d(Z)(*pt))))
    # ---------------- ENO3 face pairs
    for dim in (2, 3):
        for c, cn in ((X, "x"), (Y, "y"), (Z, "z"))[:dim]:
            S.append(Spec(f"eno3_{cn}_{dim}d", dim,
                          [f"_advection_flux_{cn}_front_conservative_eno3_stencil_{dim}d",
                           f"_advection_flux_{cn}_back_conservative_eno3_stencil_{dim}d"],
                          {"advection_flux": "a0", "field": "f", f"velocity_{cn}": "u"},
                          lambda P, pt, h, s, c=c: P["a0"](*pt) + s["inv_dx"] * h * (P["f"] * P["u"]).d(c)(*pt),
                          symbols=("inv_dx",), kind=("eno", c)))
    return S


SPECS = _specs()
SPEC_BY_NAME = {s.name: s for s in SPECS}
POLY_KEYS = ["f", "u", "w0", "a0", "Fx", "Fy", "Fz", "Gx", "Gy", "Gz", "Wx", "Wy", "Wz"]

_BUILT = {}


def _ensure_kernels(ctx=None):
    if "done" not in _BUILT:
        _, errors = kernels.build_all(np.float64, False)
        _BUILT["done"] = True
        _BUILT["errors"] = errors


def _coef():
    # zero with probability ~1/16 so that "every degree-2 monomial present" is the common case
    return st.tuples(st.integers(0, 15), st.sampled_from([-1, 1]), st.integers(1, 40), st.integers(1, 12)).map(
        lambda t: [0, 1] if t[0] == 0 else [t[1] * t[2], t[3]])


def _spec_variants(tier):
    return [s.name for s in SPECS]


def _case_strategy(tier, spec):
    @st.composite
    def case(draw):
        sp = SPEC_BY_NAME[spec]
        polys = {}
        used = sorted(set(sp.bind.values()))
        is_eno = isinstance(sp.kind, tuple)
        deg = {}
        eno = None
        if is_eno:
            mode = draw(st.sampled_from(["natural", "natural", "mixed", "tie_front", "tie_back"]))
            if mode == "natural":
                deg["f"] = draw(st.integers(0, 3))
                deg["u"] = draw(st.integers(max(0, 2 - deg["f"]), 3 - deg["f"]))
            else:
                deg["f"] = draw(st.integers(0, 2))
                deg["u"] = 1
            deg["a0"] = 0
            # u = a*(xi - xi_cell) + t*a*h/2 along the advected axis: |t|<1 => faces upwind differently
            eno = {"mode": mode,
                   "a": draw(st.tuples(st.sampled_from([-1, 1]), st.integers(1, 30), st.integers(1, 9)).map(lambda t: [t[0] * t[1], t[2]])),
                   "t": draw(st.tuples(st.integers(-7, 7), st.just(8)).map(list))}
        for k in used:
            polys[k] = draw(st.lists(_coef(), min_size=20, max_size=20))
        return {
            "spec": spec,
            "polys": polys,
            "deg": deg,
            "eno": eno,
            "h": draw(st.tuples(st.integers(1, 64), st.integers(1, 64)).map(list)),
            "cell": draw(st.lists(st.integers(2, 9), min_size=sp.dim, max_size=sp.dim)),
            "syms": {s: draw(gen.rationals(200, 30)) for s in sp.symbols},
        }

    return case()


def _body_exact(case, ctx):
    _ensure_kernels()
    sp = SPEC_BY_NAME[case["spec"]]
    h = gen.to_fraction(case["h"])
    dim = sp.dim
    is_eno = isinstance(sp.kind, tuple)
    P = {k: Poly({}) for k in POLY_KEYS}
    drawn = {}
    for k, coefs in case["polys"].items():
        md = case["deg"].get(k, 2) if is_eno else 2
        P[k] = drawn[k] = Poly.from_coefs([gen.to_fraction(c) for c in coefs], md, nvars=dim)
    syms = {k: gen.to_fraction(v) for k, v in case["syms"].items()}
    cell = tuple(case["cell"])
    pt = _pt(cell, h, dim)
    if is_eno and case.get("eno") and case["eno"]["mode"] != "natural":
        en = case["eno"]
        c = sp.kind[1]
        a = gen.to_fraction(en["a"])
        t = {"mixed": gen.to_fraction(en["t"]), "tie_front": Fraction(-1), "tie_back": Fraction(1)}[en["mode"]]
        b = t * a * h / 2
        e1 = tuple(1 if v == c else 0 for v in range(3))
        P["u"] = drawn["u"] = Poly({e1: a, (0, 0, 0): b - a * pt[c]})

    cur = {}

    def access(name, offs):
        if name in cur and all(o == 0 for o in offs):
            return cur[name]
        key = sp.bind.get(name)
        if key is None:
            raise Violation(f"stencil {sp.stencils} reads field '{name}' that the documented operator does not take")
        shifted = tuple(c + o for c, o in zip(cell, offs))
        return P[key](*_pt(shifted, h, dim))

    out_field = None
    for sname in sp.stencils:
        if sname not in capture.STENCILS:
            raise Violation(f"stencil {sname} was not produced by any public kernel generator")
        rec = capture.stencil(sname)
        res = eval_assignments_exact(rec, access, syms)
        cur.update(res)
        out_field = list(res)[-1]
    got = cur[out_field]

    nontrivial = all(p.has_all_degree2_monomials(dim) for p in drawn.values())
    check = True
    labels = [sp.name]
    if is_eno:
        c = sp.kind[1]
        # array offset along the advected axis
        def shift(k):
            sh = list(cell)
            sh[dim - 1 - c] += k
            return _pt(tuple(sh), h, dim)
        u0, up, um = P["u"](*pt), P["u"](*shift(1)), P["u"](*shift(-1))
        front, back = (u0 + up) > 0, (u0 + um) > 0
        gdeg = (P["f"] * P["u"]).degree()
        labels.append(f"branches_{'same' if front == back else 'mixed'}_{'pos' if front else 'neg'}")
        if u0 + up == 0 or u0 + um == 0:
            labels.append("face_sum_exactly_zero")
        labels.append(f"flux_degree_{gdeg}")
        if front != back and gdeg > 2:
            check = False  # outside the stated exactness class
            labels.append("skipped_mixed_branch_cubic")
        nontrivial = gdeg >= 2 and check
    if check:
        want = sp.expected(P, pt, h, syms)
        if got != want:
            raise Violation(
                f"{sp.name}: stencil value {got} != analytic {want} at cell {cell}, h={h}, symbols={ {k: str(v) for k, v in syms.items()} }"
            )
    ctx.note(nontrivial=nontrivial, labels=labels)


# ------------------------------------------------------------------------------------------------
# Part 2: compiled public wrappers on sampled polynomials
# ------------------------------------------------------------------------------------------------

WRAPPERS = ["diffusion_flux_2d", "inplane_curl_2d", "outplane_curl_2d", "update_forcing_2d", "update_penalised_2d",
            "advection_flux_2d", "diffusion_flux_3d", "diffusion_flux_vec_3d", "curl_3d", "divergence_3d",
            "update_forcing_3d", "update_penalised_3d", "stretching_flux_3d", "advection_flux_3d",
            "filter_multiplicative_3d", "filter_convolution_3d"]


def _wrapper_variants(tier):
    return list(WRAPPERS)


def _wrapper_strategy(tier, w):
    hi2, hi3 = (40, 16) if tier == "thorough" else (20, 10)

    @st.composite
    def case(draw):
        dim = 2 if w.endswith("2d") else 3
        shape = draw(gen.grid_shape(dim, 5 if not w.startswith("filter") else 13, hi2 if dim == 2 else max(hi3, 15), long_axis=70 if dim == 2 else 40))
        coef = gen.floats(-2.0, 2.0, 32)
        return {
            "wrapper": w,
            "shape": shape,
            "x_range": draw(gen.nice_or_log(0.1, 10.0)),
            "polys": {k: draw(st.lists(coef, min_size=20, max_size=20)) for k in POLY_KEYS},
            # memory layout of each array handed to the compiled wrapper (cycled)
            "layouts": draw(st.lists(st.sampled_from(["contig", "contig", "strided_last", "component_last", "subblock", "fortran"]),
                                     min_size=3, max_size=3)),
            "prefactor": draw(st.one_of(gen.floats(-3.0, 3.0, 32), gen.floats(-3.0, 3.0, 32), gen.floats(-3.0, 3.0, 32),
                                       st.sampled_from([0.0, 1.0, -1.0]))),  # exact 0 = inviscid / switched-off operator
            "threads": draw(st.sampled_from([False, 1, 2])),
            "deg_f": draw(st.integers(0, 2)),
            "filter_order": draw(st.integers(1, 5)),
            "filter_vector": draw(st.booleans()),
        }

    return case()


_WK = {}


def _get_wrapper(name, threads):
    key = (name, threads)
    if key in _WK:
        return _WK[key]
    import sopht.numeric.eulerian_grid_ops as spne

    r = np.float64
    g = {
        "diffusion_flux_2d": lambda: spne.gen_diffusion_flux_pyst_kernel_2d(real_t=r, num_threads=threads),
        "inplane_curl_2d": lambda: spne.gen_inplane_field_curl_pyst_kernel_2d(real_t=r, num_threads=threads),
        "outplane_curl_2d": lambda: spne.gen_outplane_field_curl_pyst_kernel_2d(real_t=r, num_threads=threads),
        "update_forcing_2d": lambda: spne.gen_update_vorticity_from_velocity_forcing_pyst_kernel_2d(real_t=r, num_threads=threads),
        "update_penalised_2d": lambda: spne.gen_update_vorticity_from_penalised_velocity_pyst_kernel_2d(real_t=r, num_threads=threads),
        "advection_flux_2d": lambda: spne.gen_advection_flux_conservative_eno3_pyst_kernel_2d(real_t=r, num_threads=threads),
        "diffusion_flux_3d": lambda: spne.gen_diffusion_flux_pyst_kernel_3d(real_t=r, num_threads=threads),
        "diffusion_flux_vec_3d": lambda: spne.gen_diffusion_flux_pyst_kernel_3d(real_t=r, num_threads=threads, field_type="vector"),
        "curl_3d": lambda: spne.gen_curl_pyst_kernel_3d(real_t=r, num_threads=threads),
        "divergence_3d": lambda: spne.gen_divergence_pyst_kernel_3d(real_t=r, num_threads=threads),
        "update_forcing_3d": lambda: spne.gen_update_vorticity_from_velocity_forcing_pyst_kernel_3d(real_t=r, num_threads=threads),
        "update_penalised_3d": lambda: spne.gen_update_vorticity_from_penalised_velocity_pyst_kernel_3d(real_t=r, num_threads=threads),
        "stretching_flux_3d": lambda: spne.gen_vorticity_stretching_flux_pyst_kernel_3d(real_t=r, num_threads=threads),
        "advection_flux_3d": lambda: spne.gen_advection_flux_conservative_eno3_pyst_kernel_3d(real_t=r, num_threads=threads),
    }[name]
    _WK[key] = g()
    return _WK[key]


class FPoly:
    """float64 polynomial in (x,y,z) with numpy evaluation and analytic derivatives."""

    def __init__(self, coefs, max_deg, nvars):
        self.terms = {e: float(c) for e, c in zip(MONO3_DEG3, coefs)
                      if sum(e) <= max_deg and (nvars == 3 or e[2] == 0) and c != 0}

    def __call__(self, pos):
        x, y = pos[0], pos[1]
        z = pos[2] if len(pos) > 2 else 0.0
        out = np.zeros_like(x, dtype=np.float64)
        for (a, b, c), k in self.terms.items():
            out = out + k * x**a * y**b * (z**c if c else 1.0)
        return out

    def absval(self, pos):
        x, y = np.abs(pos[0]), np.abs(pos[1])
        z = np.abs(pos[2]) if len(pos) > 2 else 0.0
        out = np.zeros_like(x, dtype=np.float64)
        for (a, b, c), k in self.terms.items():
            out = out + abs(k) * x**a * y**b * (z**c if c else 1.0)
        return out

    def d(self, v):
        p = FPoly([], 0, 3)
        p.terms = {}
        for e, k in self.terms.items():
            if e[v] == 0:
                continue
            ne = list(e)
            ne[v] -= 1
            p.terms[tuple(ne)] = p.terms.get(tuple(ne), 0.0) + k * e[v]
        return p

    def __sub__(self, o):
        p = FPoly([], 0, 3)
        p.terms = dict(self.terms)
        for e, k in o.terms.items():
            p.terms[e] = p.terms.get(e, 0.0) - k
        return p

    def __mul__(self, o):
        p = FPoly([], 0, 3)
        p.terms = {}
        for e1, c1 in self.terms.items():
            for e2, c2 in o.terms.items():
                e = tuple(a + b for a, b in zip(e1, e2))
                p.terms[e] = p.terms.get(e, 0.0) + c1 * c2
        return p


def _body_wrappers(case, ctx):
    name = case["wrapper"]
    dim = 2 if name.endswith("2d") else 3
    shape = tuple(case["shape"])
    dx = case["x_range"] / shape[-1]
    pos = kernels.position_field(shape, dx, np.float64)
    pre = float(case["prefactor"])
    thr = case["threads"]
    if name.startswith("filter"):
        return _filter_on_quadratics(case, ctx, shape, dx, pos)
    with ctx.repo_call(f"generating {name}"):
        k = _get_wrapper(name, thr)
    P = {key: FPoly(c, 2, dim) for key, c in case["polys"].items()}
    eps = float(np.finfo(np.float64).eps)

    from .c12 import _lay

    lays = list(case.get("layouts", ["contig"]))
    nlay = [0]

    def lay(arr):
        """same values in the next drawn memory layout (contiguous, strided last axis, component-last, sub-block, Fortran)"""
        nlay[0] += 1
        return _lay(np.asarray(arr, dtype=np.float64), lays[(nlay[0] - 1) % len(lays)], dim)

    def vec(keys):
        return lay(np.stack([P[q](pos) for q in keys]))

    def fcurl(F, c):
        fx, fy, fz = F
        if c == 0:
            return fz.d(1)(pos) - fy.d(2)(pos)
        if c == 1:
            return fx.d(2)(pos) - fz.d(0)(pos)
        return fy.d(0)(pos) - fx.d(1)(pos)

    inner = (slice(1, -1),) * dim
    checks = []  # (got, want, scale)
    big = sum(p.absval(pos) for p in P.values()) + 1.0
    if name in ("diffusion_flux_2d", "diffusion_flux_3d"):
        f = lay(P["f"](pos))
        out = lay(np.full(shape, 7.0))
        with ctx.repo_call(name):
            k(diffusion_flux=out, field=f, prefactor=pre)
        lap = sum(P["f"].d(v).d(v)(pos) for v in range(dim))
        checks.append((out[inner], (pre * dx * dx * lap)[inner], abs(pre) * (2 * dim + 1) * big[inner]))
    elif name == "diffusion_flux_vec_3d":
        F = vec(["Fx", "Fy", "Fz"])
        out = lay(np.full((3, *shape), 7.0))
        with ctx.repo_call(name):
            k(vector_field_diffusion_flux=out, vector_field=F, prefactor=pre)
        for c, q in enumerate(["Fx", "Fy", "Fz"]):
            lap = sum(P[q].d(v).d(v)(pos) for v in range(3))
            checks.append((out[c][inner], (pre * dx * dx * lap)[inner], abs(pre) * 7 * big[inner]))
    elif name == "inplane_curl_2d":
        F = vec(["Fx", "Fy"])
        out = lay(np.full(shape, 7.0))
        with ctx.repo_call(name):
            k(curl=out, field=F, prefactor=pre)
        want = pre * 2 * dx * (P["Fy"].d(0)(pos) - P["Fx"].d(1)(pos))
        checks.append((out[inner], want[inner], abs(pre) * 4 * big[inner]))
    elif name == "outplane_curl_2d":
        f = lay(P["f"](pos))
        out = lay(np.full((2, *shape), 7.0))
        with ctx.repo_call(name):
            k(curl=out, field=f, prefactor=pre)
        checks.append((out[0][inner], (pre * 2 * dx * P["f"].d(1)(pos))[inner], abs(pre) * 2 * big[inner]))
        checks.append((out[1][inner], (-pre * 2 * dx * P["f"].d(0)(pos))[inner], abs(pre) * 2 * big[inner]))
    elif name in ("update_forcing_2d", "update_penalised_2d"):
        w = lay(P["w0"](pos))
        w0 = w.copy()
        F = vec(["Fx", "Fy"])
        if name == "update_forcing_2d":
            with ctx.repo_call(name):
                k(vorticity_field=w, velocity_forcing_field=F, prefactor=pre)
            want = w0 + pre * 2 * dx * (P["Fy"].d(0)(pos) - P["Fx"].d(1)(pos))
        else:
            G = vec(["Gx", "Gy"])
            with ctx.repo_call(name):
                k(vorticity_field=w, penalised_velocity_field=G, velocity_field=F, prefactor=pre)
            want = w0 + pre * 2 * dx * ((P["Gy"] - P["Fy"]).d(0)(pos) - (P["Gx"] - P["Fx"]).d(1)(pos))
        checks.append((w[inner], want[inner], (1 + abs(pre) * 8) * big[inner]))
    elif name == "curl_3d":
        F = vec(["Fx", "Fy", "Fz"])
        out = lay(np.full((3, *shape), 7.0))
        with ctx.repo_call(name):
            k(curl=out, field=F, prefactor=pre)
        for c in range(3):
            checks.append((out[c][inner], (pre * 2 * dx * fcurl((P["Fx"], P["Fy"], P["Fz"]), c))[inner],
                           abs(pre) * 4 * big[inner]))
    elif name == "divergence_3d":
        F = vec(["Fx", "Fy", "Fz"])
        out = lay(np.full(shape, 7.0))
        with ctx.repo_call(name):
            k(divergence=out, field=F, inv_dx=1.0 / dx)
        want = P["Fx"].d(0)(pos) + P["Fy"].d(1)(pos) + P["Fz"].d(2)(pos)
        checks.append((out[inner], want[inner], 3 * big[inner] / dx))
    elif name in ("update_forcing_3d", "update_penalised_3d"):
        W = vec(["Wx", "Wy", "Wz"])
        W0 = W.copy()
        F = vec(["Fx", "Fy", "Fz"])
        if name == "update_forcing_3d":
            with ctx.repo_call(name):
                k(vorticity_field=W, velocity_forcing_field=F, prefactor=pre)
            D = (P["Fx"], P["Fy"], P["Fz"])
        else:
            G = vec(["Gx", "Gy", "Gz"])
            with ctx.repo_call(name):
                k(vorticity_field=W, penalised_velocity_field=G, velocity_field=F, prefactor=pre)
            D = (P["Gx"] - P["Fx"], P["Gy"] - P["Fy"], P["Gz"] - P["Fz"])
        for c in range(3):
            checks.append((W[c][inner], (W0[c] + pre * 2 * dx * fcurl(D, c))[inner], (1 + abs(pre) * 8) * big[inner]))
    elif name == "stretching_flux_3d":
        W = vec(["Wx", "Wy", "Wz"])
        U = vec(["Fx", "Fy", "Fz"])
        out = lay(np.full((3, *shape), 7.0))
        with ctx.repo_call(name):
            k(vorticity_stretching_flux_field=out, vorticity_field=W, velocity_field=U, prefactor=pre)
        for c, q in enumerate(["Fx", "Fy", "Fz"]):
            want = pre * 2 * dx * sum(W[v] * P[q].d(v)(pos) for v in range(3))
            checks.append((out[c][inner], want[inner], abs(pre) * 6 * (big * big)[inner]))
    elif name in ("advection_flux_2d", "advection_flux_3d"):
        # quadratic nodal flux: f of degree deg_f, u of degree 2 - deg_f  => exact for any branch pattern
        df = int(case["deg_f"])
        f = FPoly(case["polys"]["f"], df, dim)
        comps = ["Fx", "Fy", "Fz"][:dim]
        U = [FPoly(case["polys"][q], 2 - df, dim) for q in comps]
        vel = lay(np.stack([u(pos) for u in U]))
        fld = lay(f(pos))
        out = lay(np.zeros(shape))
        with ctx.repo_call(name):
            k(advection_flux=out, field=fld, velocity=vel, inv_dx=1.0 / dx)
        want = sum((f * U[v]).d(v)(pos) for v in range(dim))
        inner2 = (slice(2, -2),) * dim
        sc = sum((f * U[v]).absval(pos) for v in range(dim)) * 4 / dx + 1.0
        checks.append((out[inner2], want[inner2], sc[inner2]))
    else:
        raise ValueError(name)
    worst = 0.0
    for got, want, scale in checks:
        if got.size == 0:
            continue
        err = np.abs(got - want)
        tol = 64 * eps * np.maximum(scale, 1e-280)  # (not 1e-300: the product must stay a normal number, the process runs flush-to-zero)
        bad = err > tol
        worst = max(worst, float(np.max(err / tol)))
        if np.any(bad):
            i = np.unravel_index(int(np.argmax(err / tol)), err.shape)
            raise Violation(f"{name}: compiled wrapper differs from the analytic operator at interior cell {tuple(int(q) for q in i)}: "
                            f"got {got[i]!r} want {want[i]!r} (shape {list(shape)}, dx {dx:.4g}, prefactor {pre})")
    ctx.extra["max_err_over_tol"] = max(ctx.extra.get("max_err_over_tol", 0.0), worst)
    ctx.note(nontrivial=len(set(shape)) > 1, labels=[name, "noncubic" if len(set(shape)) > 1 else "cubic"] + sorted({"layout_" + q for q in lays}))


def _filter_on_quadratics(case, ctx, shape, dx, pos):
    """Laplacian filter operators of order n on quadratic fields, deep in the interior: each 1-D filter Laplacian maps a
    quadratic to the constant -(h^2/4) d^2 q, and annihilates constants, hence
    convolution order 1: q + (h^2/4) lap q ; convolution order >= 2 and multiplicative of any order: q."""
    import sopht.numeric.eulerian_grid_ops as spne

    ftype = "multiplicative" if "multiplicative" in case["wrapper"] else "convolution"
    order = int(case["filter_order"])
    vec = bool(case["filter_vector"])
    bufs = np.full((2, *shape), 3.0e5)
    with ctx.repo_call("gen_laplacian_filter_kernel_3d"):
        k = spne.gen_laplacian_filter_kernel_3d(filter_order=order, filter_flux_buffer=bufs[0], field_buffer=bufs[1], real_t=np.float64,
                                                num_threads=case["threads"], field_type="vector" if vec else "scalar", filter_type=ftype)
    keys = ["Fx", "Fy", "Fz"] if vec else ["f"]
    P = [FPoly(case["polys"][q], 2, 3) for q in keys]
    f = np.stack([p(pos) for p in P])
    f0 = f.copy()
    with ctx.repo_call(f"laplacian filter {ftype} order {order}"):
        if vec:
            k(vector_field=f)
        else:
            k(scalar_field=f[0])
    eps = float(np.finfo(np.float64).eps)
    deep = (slice(order + 1, -(order + 1)),) * 3
    for c, p in enumerate(P):
        lap = sum(p.d(v).d(v)(pos) for v in range(3))
        want = f0[c] + (0.25 * dx * dx * lap if (ftype == "convolution" and order == 1) else 0.0)
        err = np.abs(f[c] - want)[deep]
        tol = 64 * eps * (p.absval(pos)[deep] + 1.0) * 2.0 ** order
        if err.size and np.any(err > tol):
            i = np.unravel_index(int(np.argmax(err - tol)), err.shape)
            raise Violation(f"{ftype} Laplacian filter of order {order} maps a quadratic to {f[c][deep][i]!r} at a deep-interior cell, the "
                            f"continuous counterpart gives {want[deep][i]!r} (shape {list(shape)}, dx {dx:.4g})")
    ctx.note(nontrivial=len(set(shape)) > 1, labels=[case["wrapper"], f"filter_order_{order}"])


def _spec_inventory_cases(tier):
    return [{"inventory": True}]


def _body_inventory(case, ctx):
    """Every stencil that contains a neighbour read must be covered by a spec of this file (finite enumeration)."""
    _ensure_kernels()
    if _BUILT["errors"]:
        k, e = next(iter(_BUILT["errors"].items()))
        raise Violation(f"kernel generator {k[0]}{dict(k[1])} raised {type(e).__name__}: {e}",
                        key=f"generator_raises:{k[0]}")
    covered = {s for sp in SPECS for s in sp.stencils}
    for name, recs in capture.STENCILS.items():
        if recs[-1].reach() > 0 and name not in covered:
            raise Violation(f"differential stencil {name} is produced by the library but has no documented continuous counterpart in the C05 table")
    for s in covered:
        if s not in capture.STENCILS:
            raise Violation(f"documented stencil {s} is no longer produced by any public generator")
    ctx.note(nontrivial=True, labels=[f"stencils_{len(covered)}"])
    ctx.extra["differential_stencils"] = len(covered)


PARTS = [
    Part(name="exact_stencils", strategy=_case_strategy, body=_body_exact,
         examples={"quick": 6000, "thorough": 120000}, shards={"quick": 8, "thorough": 16}, variants=_spec_variants),
    Part(name="compiled_wrappers", strategy=_wrapper_strategy, body=_body_wrappers,
         examples={"quick": 480, "thorough": 8000}, shards={"quick": 8, "thorough": 16}, variants=_wrapper_variants),
    Part(name="stencil_inventory", strategy=None, body=_body_inventory, examples={"quick": 1, "thorough": 1},
         exhaustive=_spec_inventory_cases),
]
