#!/usr/bin/env python3
"""seeded/README.md from seeded/*/meta.json."""
import glob, json, os
HERE = os.path.dirname(os.path.dirname(os.path.abspath(__file__)))
rows = []
for f in sorted(glob.glob(os.path.join(HERE, "seeded", "*", "meta.json"))):
    m = json.load(open(f))
    det = [p for p, r in m.get("checks", {}).items() if r["violation"]]
    mis = [p for p, r in m.get("checks", {}).items() if not r["violation"]]
    bc = m.get("baseline_checks") or {}
    own = m["breaks_property"]
    if own in bc:
        base = f"{'detected' if bc[own]['violation'] else 'MISSED'} (@{bc.get('commit', '?')})"
    else:
        fe = m.get("first_evaluation_checks") or {}
        base = ("detected" if fe[own]["violation"] else "MISSED") + " (first evaluation)" if own in fe else "-"
    rows.append((m["name"], m["breaks_property"], m.get("needs_to_manifest", ""), m.get("demo_confirms"),
                 len(m.get("stable_tests_now_failing", [])), ", ".join(det) or "-", ", ".join(mis) or "-", base))
out = ["# Seeded changes (written by sub-agents that saw only the property text and a scratch worktree)\n",
       "Each directory holds `patch.diff` (against /repo HEAD incl. the `fix:` commits), the agent's `demo.py` (exit 0 on the original source, "
       "non-zero with the patch), `notes.md`, `pyst_shim.py` (environment adaptation used by the demo) and `meta.json` written by "
       "`tools/seed_eval.py`: the demo was re-run in a fresh scratch copy in both directions, the pinned pytest suite was run on the patched "
       "copy (all 414 stable tests must still pass), and the listed quick checks were run against the patched copy "
       "(`PYTHONPATH=<scratch copy>`; /repo itself is never modified). Rounds: unprefixed = round 1, `r2_` .. `r4_` = later rounds (each round's "
       "agents were told which ideas were already taken). The last column is what the property's own check did BEFORE the machinery was widened in "
       "response (tools/seed_base_eval.py). To run a check against a change in /repo itself: "
       "`git -C /repo apply /verif/seeded/<name>/patch.diff; /venv/bin/python check.py <ID>; git -C /repo checkout -- .`\n",
       "| change | breaks | needs to manifest | demo confirmed | stable tests broken | detected by (quick, current checks) | not detected by | own check at the start of the session in which the change was written (rounds 3-5: /verif commit bf5e198; rounds 1/2: first evaluation) |",
       "|---|---|---|---|---|---|---|---|"]
for r in rows:
    out.append("| " + " | ".join(str(x) for x in r) + " |")
out.append("")
extra = os.path.join(HERE, "seeded", "NOTES.md")
if os.path.exists(extra):
    out.append(open(extra).read())
open(os.path.join(HERE, "seeded", "README.md"), "w").write("\n".join(out))
print(len(rows), "seeded changes")
