"""C08 - action equals reaction between every immersed body and the fluid."""

from __future__ import annotations

import numpy as np
from hypothesis import strategies as st

from .. import bodies, gen
from ..runner import Part, Violation

PROPERTY_ID = "C08"
LEVEL = "exploration"
RULE = (
    "Part transfer_balance, stratified over every forcing-grid class (2-D circular cylinder, open-end 3-D cylinder, sphere, "
    "rectangular plane; rod nodal 2-D/3-D, element-centric 2-D/3-D, edge 2-D, surface 3-D with and without caps): Hypothesis "
    "draws the body (rigid: generic SO(3)/planar pose, axis-aligned and 180-degree cases, lab velocity, material angular "
    "velocity; rods: 2..40 elements, bent/wiggly centre lines, per-element directors not tied to the tangent, uniform/linear/"
    "random taper, drawn node masses), the grid density and a marker forcing field; after compute_lag_grid_position_field() "
    "(as the caller does) transfer_forcing_from_grid_to_body is called twice with different forcing fields. Oracles (64 eps "
    "sum|terms|): net body force = -sum of marker forces; for rigid bodies and off-node rod grids net moment about a drawn point "
    "(nodal forces + element couples rotated to the lab frame) = -moment of marker forces; rigid bodies: power of the wrench = "
    "-power of marker forces at marker velocities; second call independent of the first. Part end_to_end: real "
    "ImmersedBodyFlowInteraction objects (palette of 6 body/grid kinds) with a generated flow: after __call__() and "
    "compute_flow_forces_and_torques(), sum_cells eul_grid_forcing_field dx^d + sum body_flow_forces = 0. Non-trivial: pose not "
    "axis-aligned (rotation >= 0.1 rad about a non-coordinate axis) for rigid bodies; taper or caps for rods. Distinct = digest."
)
ASSUMPTIONS = ["2-D grids: bodies constrained to the XY plane as the library documents", "PyElastica helpers trusted"]
BUDGET_S = {"quick": 150.0, "thorough": 2400.0}

GRIDS = ["cylinder2d", "cylinder3d", "sphere", "plane", "rod_nodal_2d", "rod_nodal_3d", "rod_element_2d", "rod_element_3d",
         "rod_edge_2d", "rod_surface_3d", "rod_surface_caps_3d"]


def _variants(tier):
    return list(GRIDS)


def grid_strategy(kind, tier):
    f = lambda lo, hi: gen.floats(lo, hi, 32)  # noqa: E731

    @st.composite
    def case(draw):
        c = {"grid": kind, "key": draw(gen.block_keys), "key2": draw(gen.block_keys),
             # the body is deformed / re-posed AFTER the grid object was constructed (as in a running simulation)
             "deform_after": draw(st.sampled_from([True, True, False])), "deform_key": draw(gen.block_keys),
             # PyElastica's finalize() re-binds every state array of a body to block memory: the grid may only hold the body
             "rebind_arrays": draw(st.booleans()),
             # earlier life of the SAME grid object: 0-2 earlier body states, each followed by the calls an interaction makes
             # per evaluation (position, velocity, force transfer), before the state under test is set
             "earlier": draw(st.lists(gen.block_keys, max_size=2)),
             "earlier_order": draw(st.sampled_from(["pos_vel", "vel_pos", "pos_only"])),
             "point": draw(st.lists(f(-3.0, 3.0), min_size=3, max_size=3)), "force_exp": draw(st.integers(-6, 6))}
        if kind.startswith("rod"):
            planar = kind.endswith("2d")
            c["rod"] = draw(bodies.rod_spec(planar, max_elems=40 if tier == "thorough" else 16))
            c["density"] = draw(st.integers(3, 24))
        else:
            c["pose"] = draw(bodies.pose_spec(planar=(kind == "cylinder2d")))
            c["geom"] = {"radius": draw(f(0.05, 1.0)), "length": draw(f(0.2, 3.0)), "breadth": draw(f(0.2, 3.0))}
            c["n"] = draw({"cylinder2d": st.integers(3, 200), "cylinder3d": st.integers(2, 12), "sphere": st.integers(4, 40),
                           "plane": st.integers(2, 20)}[kind])
        return c

    return case()


def _rebind(body):
    """what PyElastica's finalize() does to a body: every state array becomes a NEW array object with the same contents."""
    for nm in ("position_collection", "director_collection", "velocity_collection", "omega_collection", "radius", "lengths",
               "tangents", "mass"):
        v = getattr(body, nm, None)
        if isinstance(v, np.ndarray):
            old = v.copy()
            setattr(body, nm, old.copy())
            v[...] = 1.0e3  # the old array object is dead: anything still reading it sees garbage


def build_grid(case):
    """returns (grid, body, dim, rigid: bool, Q or None)."""
    import sopht.simulator.immersed_body as spi

    kind = case["grid"]
    deform = case.get("deform_after", False)
    if kind.startswith("rod"):
        rod = bodies.make_rod(case["rod"])
        dim = 2 if kind.endswith("2d") else 3
        if kind.startswith("rod_nodal"):
            g = spi.CosseratRodNodalForcingGrid(grid_dim=dim, cosserat_rod=rod)
        elif kind.startswith("rod_element"):
            g = spi.CosseratRodElementCentricForcingGrid(grid_dim=dim, cosserat_rod=rod)
        elif kind == "rod_edge_2d":
            g = spi.CosseratRodEdgeForcingGrid(grid_dim=2, cosserat_rod=rod)
        else:
            g = spi.CosseratRodSurfaceForcingGrid(grid_dim=3, cosserat_rod=rod,
                                                  surface_grid_density_for_largest_element=case["density"],
                                                  with_cap=(kind == "rod_surface_caps_3d"))
        if deform:
            for ek in case.get("earlier", []):
                se = dict(case["rod"])
                se["key"] = int(ek)
                se["shape_mode"] = "bent" if se["shape_mode"] == "straight" else se["shape_mode"]
                oe = bodies.make_rod(se)
                for nm in ("position_collection", "director_collection", "velocity_collection", "omega_collection", "lengths",
                           "tangents", "mass"):
                    getattr(rod, nm)[...] = getattr(oe, nm)
                _exercise(g, rod, False, case.get("earlier_order", "pos_vel"))
            # a second generated state of the same rod (new centre line, directors, radii via stretch, velocities, masses)
            spec2 = dict(case["rod"])
            spec2["key"] = int(case["deform_key"])
            spec2["shape_mode"] = "bent" if spec2["shape_mode"] == "straight" else spec2["shape_mode"]
            other = bodies.make_rod(spec2)
            rng = np.random.Generator(np.random.Philox(key=int(case["deform_key"]) + 7))
            for nm in ("position_collection", "director_collection", "velocity_collection", "omega_collection", "lengths",
                       "tangents", "mass"):
                getattr(rod, nm)[...] = getattr(other, nm)
            # stretching changes the radius through volume conservation: element-wise factor in [0.6, 1.4]
            rod.radius[...] = rod.radius * (0.6 + 0.8 * rng.random(rod.n_elems))
            if case.get("rebind_arrays"):
                _rebind(rod)
        return g, rod, dim, False, None
    geom = dict(case["geom"])
    if kind == "plane":
        geom["breadth"] = max(geom["breadth"], geom["length"] / case["n"] * 1.01)
    body = bodies.make_rigid(kind, geom)
    Q = None
    if not deform:
        Q = bodies.apply_pose(body, case["pose"])
    if kind == "cylinder2d":
        g = spi.CircularCylinderForcingGrid(grid_dim=2, rigid_body=body, num_forcing_points=case["n"])
        dim = 2
    elif kind == "cylinder3d":
        g = spi.OpenEndCircularCylinderForcingGrid(grid_dim=3, rigid_body=body, num_forcing_points_along_length=case["n"])
        dim = 3
    elif kind == "sphere":
        g = spi.SphereForcingGrid(grid_dim=3, rigid_body=body, num_forcing_points_along_equator=case["n"])
        dim = 3
    else:
        g = spi.RectangularPlaneForcingGrid(grid_dim=3, rigid_body=body, num_forcing_points_along_length=case["n"])
        dim = 3
    if deform:
        for ek in case.get("earlier", []):
            rng = np.random.Generator(np.random.Philox(key=int(ek)))
            pe = dict(case["pose"], mode="generic", quat=list(rng.normal(size=4)), angle=float(rng.uniform(-3.0, 3.0)),
                      center=list(rng.uniform(-2.0, 2.0, size=3)), omega=list(rng.uniform(-4.0, 4.0, size=3)), omega_zero=False,
                      V=list(rng.uniform(-3.0, 3.0, size=3)), at_rest=False)  # earlier states always move
            bodies.apply_pose(body, pe)
            _exercise(g, body, True, case.get("earlier_order", "pos_vel"))
        Q = bodies.apply_pose(body, case["pose"])  # pose set only after the grid exists
        if case.get("rebind_arrays"):
            _rebind(body)
    return g, body, dim, True, Q


def _exercise(g, body, rigid, order):
    """what an interaction object does with the grid at every evaluation (results are discarded)."""
    if order == "vel_pos":
        g.compute_lag_grid_velocity_field()
        g.compute_lag_grid_position_field()
    else:
        g.compute_lag_grid_position_field()
        if order != "pos_only":
            g.compute_lag_grid_velocity_field()
    n_nodes = body.position_collection.shape[1]
    F = np.zeros((3, n_nodes))
    T = np.zeros((3, 1 if rigid else body.n_elems))
    g.transfer_forcing_from_grid_to_body(body_flow_forces=F, body_flow_torques=T,
                                         lag_grid_forcing_field=np.ones((g.grid_dim, g.num_lag_nodes)))


def pad3(a):
    a = np.asarray(a, dtype=np.float64)
    if a.shape[0] == 3:
        return a
    return np.vstack([a, np.zeros((1, a.shape[1]))])


def _balance(case, ctx, g, body, dim, rigid, f, what):
    n_nodes = body.position_collection.shape[1]
    n_el = 1 if rigid else body.n_elems
    F = np.zeros((3, n_nodes))
    T = np.zeros((3, n_el))
    with ctx.repo_call(f"{case['grid']}.transfer_forcing_from_grid_to_body"):
        g.transfer_forcing_from_grid_to_body(body_flow_forces=F, body_flow_torques=T, lag_grid_forcing_field=f)
    eps = np.finfo(np.float64).eps
    f3 = pad3(f)
    xm = pad3(g.position_field)
    tot_marker = f3.sum(axis=1)
    tot_body = F.sum(axis=1)
    tolF = 64 * eps * float(np.sum(np.abs(f3))) + 1e-300
    if np.any(np.abs(tot_body + tot_marker) > tolF) or not np.all(np.isfinite(F)) or not np.all(np.isfinite(T)):
        raise Violation(f"{what}: net force on the body {tot_body.tolist()} != -sum of marker forces {(-tot_marker).tolist()}")
    nodal = case["grid"].startswith("rod_nodal")
    P = np.array(case["point"])
    if dim == 2:
        P[2] = 0.0
    if not nodal:
        xn = body.position_collection
        Qc = body.director_collection
        m_body = np.cross((xn - P[:, None]).T, F.T).sum(axis=0)
        m_body = m_body + sum(Qc[:, :, e].T @ T[:, e] for e in range(n_el))
        m_mark = np.cross((xm - P[:, None]).T, f3.T).sum(axis=0)
        arm = float(np.max(np.linalg.norm(xm - P[:, None], axis=0))) + float(np.max(np.linalg.norm(xn - P[:, None], axis=0)))
        tolM = 64 * eps * arm * float(np.sum(np.abs(f3))) + 1e-300
        if np.any(np.abs(m_body + m_mark) > tolM):
            raise Violation(f"{what}: net moment about {P.tolist()} transferred to the body {m_body.tolist()} != -moment of marker forces "
                            f"{(-m_mark).tolist()} (tol {tolM:.3e})")
    if rigid:
        with ctx.repo_call("compute_lag_grid_velocity_field"):
            g.compute_lag_grid_velocity_field()
        vm = pad3(g.velocity_field)
        p_body = float(F[:, 0] @ body.velocity_collection[:, 0] + T[:, 0] @ body.omega_collection[:, 0])
        p_mark = float(np.sum(f3 * vm))
        tolP = 64 * eps * float(np.sum(np.abs(f3) * np.abs(vm))) + 64 * eps * float(np.sum(np.abs(f3))) * (
            float(np.linalg.norm(body.velocity_collection)) + float(np.linalg.norm(body.omega_collection)) * float(np.max(np.abs(xm)) + 1)) + 1e-300
        if abs(p_body + p_mark) > tolP:
            raise Violation(f"{what}: power of the transferred wrench {p_body!r} != -power of marker forces {-p_mark!r}")
    return F, T


def _body(case, ctx):
    with ctx.repo_call(f"constructing {case['grid']}"):
        g, body, dim, rigid, Q = build_grid(case)
    snap = bodies.snapshot_body(body)
    with ctx.repo_call("compute_lag_grid_position_field"):
        g.compute_lag_grid_position_field()
    N = g.num_lag_nodes
    if g.position_field.shape != (dim, N):
        raise Violation(f"{case['grid']}: position_field shape {g.position_field.shape} != (dim, num_lag_nodes)")
    scale = 2.0 ** case["force_exp"]
    f1 = np.random.Generator(np.random.Philox(key=int(case["key"]))).normal(size=(dim, N)) * scale
    f2 = np.random.Generator(np.random.Philox(key=int(case["key2"]))).normal(size=(dim, N)) * scale * 3.0
    what = f"{case['grid']} (N={N})"
    _balance(case, ctx, g, body, dim, rigid, f1, what + " first call")
    F2, T2 = _balance(case, ctx, g, body, dim, rigid, f2, what + " second call")
    bad = bodies.body_unchanged(body, snap)
    if bad:
        raise Violation(f"{case['grid']}: forcing transfer modified the body state array {bad}")
    if rigid:
        p = case["pose"]
        Qm = body.director_collection[..., 0]
        ang = np.arccos(np.clip((np.trace(Qm) - 1) / 2, -1, 1))
        offaxis = p["planar"] or np.count_nonzero(np.abs(Qm) > 1e-6) > 5
        nontriv = ang >= 0.1 and offaxis and p["mode"] == "generic"
        labels = [case["grid"], "pose_" + p["mode"], "reposed_after_grid_construction" if case.get("deform_after") else "posed_before"]
        if case.get("deform_after") and case.get("earlier"):
            labels.append(f"grid_had_{len(case['earlier'])}_earlier_states")
    else:
        r = case["rod"]
        nontriv = r["taper"] != "uniform" or case["grid"].endswith("caps_3d")
        labels = [case["grid"], "taper_" + r["taper"], "shape_" + r["shape_mode"],
                  "deformed_after_grid_construction" if case.get("deform_after") else "as_constructed"]
    ctx.note(nontrivial=bool(nontriv), labels=labels)


# ------------------------------------------------------------------------------------------------
# end to end through the interaction classes
# ------------------------------------------------------------------------------------------------

E2E = ["cylinder2d", "rod_element_2d", "rod_edge_2d", "sphere", "rod_surface_3d", "rod_nodal_3d"]
E2E_DX = 0.0625


def _e2e_variants(tier):
    return [[k, p] for k in E2E for p in ("float32", "float64")]


def _e2e_strategy(tier, var):
    kind, dtype = var

    @st.composite
    def case(draw):
        c = draw(grid_strategy(kind, tier))
        c["dtype"] = dtype
        c["reset"] = draw(st.booleans())
        c["threads"] = draw(st.sampled_from([False, 1, 2]))
        c["flow"] = draw(gen.vector_field_spec(3, kinds=["poly", "noise", "mixed", "bumps", "constant"], max_mag_exp=3))
        c["prefill"] = draw(gen.vector_field_spec(3, kinds=["zero", "noise", "constant"], max_mag_exp=3))
        c["coeffs"] = [draw(gen.floats(-1e4, 1e4, 32)), draw(gen.floats(-1e2, 1e2, 32))]
        c["dt"] = draw(gen.floats(1e-4, 1e-1, 32))
        # fixed marker counts (numba closures are compiled per marker count)
        if kind.startswith("rod"):
            c["rod"]["n_elems"] = {"rod_element_2d": 7, "rod_edge_2d": 11, "rod_surface_3d": 3, "rod_nodal_3d": 6}[kind]
            c["rod"]["taper"] = "uniform" if kind == "rod_surface_3d" else c["rod"]["taper"]
            c["rod"]["length"] = min(c["rod"]["length"], 1.2)
            c["density"] = 11
        else:
            c["n"] = {"cylinder2d": 33, "sphere": 8}[kind]
            c["geom"]["radius"] = min(c["geom"]["radius"], 0.5)
        return c

    return case()


def build_interaction(case, real_t):
    """Places the body in the middle of a grid large enough that every marker is >= 2 cells inside."""
    import sopht.simulator.immersed_body as spi

    kind = case["grid"]
    dim = 2 if kind.endswith("2d") else 3
    dx = real_t(E2E_DX)
    n = 64 if dim == 2 else 40
    shape = (n,) * dim
    centre = np.array([n * float(dx) / 2] * 3)
    if dim == 2:
        centre[2] = 0.0
    eul_u = gen.build_vector_field(case["flow"][:dim], shape, real_t)
    eul_f = gen.build_vector_field(case["prefill"][:dim], shape, real_t)
    kw = dict(eul_grid_forcing_field=eul_f, eul_grid_velocity_field=eul_u, virtual_boundary_stiffness_coeff=case["coeffs"][0],
              virtual_boundary_damping_coeff=case["coeffs"][1], dx=dx, grid_dim=dim, real_t=real_t,
              enable_eul_grid_forcing_reset=case["reset"], num_threads=case.get("threads", False))
    if kind.startswith("rod"):
        rod = bodies.make_rod(case["rod"])
        mid = rod.position_collection.mean(axis=1)
        rod.position_collection[...] += (centre - mid)[:, None]
        cls = {"rod_element_2d": spi.CosseratRodElementCentricForcingGrid, "rod_edge_2d": spi.CosseratRodEdgeForcingGrid,
               "rod_surface_3d": spi.CosseratRodSurfaceForcingGrid, "rod_nodal_3d": spi.CosseratRodNodalForcingGrid}[kind]
        extra = {"surface_grid_density_for_largest_element": case["density"]} if kind == "rod_surface_3d" else {}
        inter = spi.CosseratRodFlowInteraction(cosserat_rod=rod, forcing_grid_cls=cls, **kw, **extra)
        body = rod
    else:
        body = bodies.make_rigid(kind, case["geom"])
        pose = dict(case["pose"])
        pose["center"] = list(centre)
        bodies.apply_pose(body, pose)
        if kind == "cylinder2d":
            inter = spi.RigidBodyFlowInteraction(rigid_body=body, forcing_grid_cls=spi.CircularCylinderForcingGrid,
                                                 num_forcing_points=case["n"], **kw)
        else:
            inter = spi.RigidBodyFlowInteraction(rigid_body=body, forcing_grid_cls=spi.SphereForcingGrid,
                                                 num_forcing_points_along_equator=case["n"], **kw)
    return inter, body, eul_u, eul_f, dim, float(dx)


def _e2e_body(case, ctx):
    real_t = gen.np_dtype(case["dtype"])
    eps = float(np.finfo(real_t).eps)
    with ctx.repo_call(f"constructing the flow interaction for {case['grid']}"):
        inter, body, eul_u, eul_f, dim, dx = build_interaction(case, real_t)
    pos = inter.forcing_grid.position_field
    n = eul_u.shape[-1]
    if pos.min() < 2 * dx or pos.max() > (n - 2) * dx:
        ctx.note(labels=["markers_outside_admissible_interior_skipped"])
        return
    pre = eul_f.astype(np.float64).copy()
    u0 = eul_u.copy()
    snap = bodies.snapshot_body(body)
    # build up a non-zero integral term first
    with ctx.repo_call("interaction __call__ / time_step"):
        inter()
        inter.time_step(dt=case["dt"])
        eul_f[...] = pre.astype(real_t)
        inter()
        inter.compute_flow_forces_and_torques()
    spread = eul_f.astype(np.float64) - (0.0 if case["reset"] else pre)
    vol = dx**dim
    grid_tot = spread.reshape(dim, -1).sum(axis=1) * vol
    body_tot = inter.body_flow_forces.sum(axis=1)[:dim]
    lag_tot = inter.lag_grid_forcing_field.astype(np.float64).sum(axis=1)
    mag = float(np.sum(np.abs(inter.lag_grid_forcing_field.astype(np.float64)))) + float(np.sum(np.abs(pre))) * vol
    # absolute floor: marker forces / spread values below the smallest normal number of the working precision are flushed to zero
    # (the process runs flush-to-zero), each of the 4^dim cells of each marker may lose up to `tiny` before the 1/dx^dim-weighted sum
    tol = 256 * eps * mag + 64 * float(np.finfo(real_t).tiny) * (inter.lag_grid_forcing_field.shape[1] * 4**dim + 1)
    if np.any(np.abs(grid_tot + body_tot) > tol):
        raise Violation(f"{case['grid']} ({case['dtype']}): grid integral of the force density on the fluid {grid_tot.tolist()} + net force on the body "
                        f"{body_tot.tolist()} != 0 (marker force total {lag_tot.tolist()}, tol {tol:.3e})")
    # FlowForces (the PyElastica forcing module) must add exactly the interactor's force/torque arrays to the body
    import sopht.simulator.immersed_body as spi

    class _Sys:
        pass

    sysm = _Sys()
    sysm.external_forces = np.full_like(inter.body_flow_forces, 0.25)
    sysm.external_torques = np.full_like(inter.body_flow_torques, -0.5)
    with ctx.repo_call("FlowForces.apply_forces"):
        spi.FlowForces(inter).apply_forces(sysm, time=0.0)
    if not (np.array_equal(sysm.external_forces, 0.25 + inter.body_flow_forces)
            and np.array_equal(sysm.external_torques, -0.5 + inter.body_flow_torques)):
        raise Violation("FlowForces.apply_forces did not add exactly the flow forces/torques of the interactor to the body")
    if np.any(np.abs(inter.body_flow_forces.sum(axis=1)[:dim] - body_tot) > tol):
        raise Violation("FlowForces.apply_forces changed the net flow force although neither flow nor body moved")
    if eul_u.tobytes() != u0.tobytes():
        raise Violation("the interaction modified the flow velocity field")
    bad = bodies.body_unchanged(body, snap)
    if bad:
        raise Violation(f"the interaction modified the body state array {bad}")
    ctx.note(nontrivial=float(np.max(np.abs(lag_tot))) > 0, labels=[case["grid"], case["dtype"], "reset" if case["reset"] else "accumulate"])


def _scan_variants(tier):
    # the replicate index only spreads the work over more worker processes (it enters the derived seed)
    return [[k, r] for k in ("rod_surface_3d", "rod_surface_caps_3d") for r in range(4)]


def _scan_strategy(tier, var):
    kind = var[0]

    """many short rods on the surface grids (pure Python, milliseconds per case): per-element marker counts of tapered / capped rods
    form many different patterns, including ones whose TOTAL coincides with that of a uniform rod."""
    @st.composite
    def case(draw):
        c = draw(grid_strategy(kind, tier))
        c["rod"] = dict(c["rod"], n_elems=draw(st.integers(2, 8)), taper=draw(st.sampled_from(["slight", "slight", "linear", "random"])),
                        taper_ratio=draw(gen.floats(1.02, 2.0, 32)))
        c["density"] = draw(st.integers(3, 16))
        c["earlier"] = []
        return c

    return case()


PARTS = [
    Part(name="transfer_balance", strategy=lambda tier, kind: grid_strategy(kind, tier), body=_body, variants=_variants,
         examples={"quick": 1100, "thorough": 22000}, shards={"quick": 11, "thorough": 11}),
    Part(name="end_to_end", strategy=_e2e_strategy, body=_e2e_body, variants=_e2e_variants,
         examples={"quick": 120, "thorough": 2400}, shards={"quick": 12, "thorough": 12}),
    Part(name="surface_grid_marker_count_scan", strategy=_scan_strategy, body=_body, variants=_scan_variants,
         examples={"quick": 4000, "thorough": 60000}, shards={"quick": 8, "thorough": 16}),
]

# the same generator and oracle driven by libFuzzer with branch coverage of the forcing-grid classes as feedback
from ..fuzz import make_fuzz_part  # noqa: E402

PARTS.append(make_fuzz_part("coverage_guided_transfer_balance", PARTS[0], instrument=["sopht.simulator.immersed_body"],
                            runs={"quick": 400, "thorough": 40000}, max_time={"quick": 25, "thorough": 900}))
