"""C06 - interpolation kernels are a partition of unity with the documented moments."""

from __future__ import annotations

from fractions import Fraction

import numpy as np
from hypothesis import strategies as st

from .. import gen, ibm
from ..runner import Part, Violation

PROPERTY_ID = "C06"
LEVEL = "exploration"
RULE = (
    "Stratified over {2-D,3-D} x {cosine, peskin} x precision. Hypothesis draws the grid shape (every extent free, 6..40 / "
    "6..14), dx and marker count from the numba-compile palette (3 spacings x 4 counts), and per marker a position class in "
    "{uniform interior, exactly on a cell centre, on a cell face, +-1..2 ulp (float32 and float64) around those, clustered in "
    "one cell, exact duplicates}, all >= 2 cells inside. The communicator is driven as VirtualBoundaryForcing drives it "
    "(support kernel -> weights kernel -> interpolation/spreading kernels; float64 positions, working-precision buffers). "
    "Oracles: weights >= -4eps*max w; sum w dx^d = 1 +- 16eps; unit spread from one marker is zero at every cell farther than "
    "2dx(1+4eps) in any direction; Peskin: first moment zero within 16eps*dx; constant field interpolated exactly (16eps); "
    "Peskin: drawn affine field and the simulator's own position_field return the marker position within 16eps*max|field|. "
    "Non-trivial: at least one marker on a centre/face or within 2 ulp of one. Distinct = digest of case."
)
ASSUMPTIONS = ["markers at least two cells inside the domain (the documented admissible interior)",
               "dx and marker count from a palette because every (dx, N) pair is a separate numba compilation"]
BUDGET_S = {"quick": 150.0, "thorough": 2400.0}


def _variants(tier):
    base = [[d, k, p, "palette"] for d in (2, 3) for k in ("cosine", "peskin") for p in ("float32", "float64")]
    return base + [[d, k, "float64", "large"] for d in (2, 3) for k in ("cosine", "peskin")]


def _strategy(tier, var):
    dim, kt, dtype, nmode = var

    @st.composite
    def case(draw):
        n = draw(st.sampled_from(ibm.N_PALETTE[dim])) if nmode == "palette" else ibm.N_LARGE
        hi = (40 if dim == 2 else 14) if tier == "quick" else (64 if dim == 2 else 20)
        if nmode == "large":
            return {"dim": dim, "kernel": kt, "dtype": dtype, "dx": ibm.DX_PALETTE[0], "n": n,
                    "shape": _elongate(draw, draw(gen.grid_shape(dim, 8, hi)), dim, tier), "marker_key": draw(gen.block_keys),
                    "markers": draw(ibm.marker_spec(dim, 6)),
                    "affine": draw(st.lists(gen.floats(-4.0, 4.0, 32), min_size=4, max_size=4)),
                    "const": draw(gen.floats(-100.0, 100.0, 32)), "probe": draw(st.integers(0, 639))}
        return {"dim": dim, "kernel": kt, "dtype": dtype, "dx": draw(st.sampled_from(ibm.DX_PALETTE)), "n": n,
                "shape": _elongate(draw, draw(gen.grid_shape(dim, 6, hi)), dim, tier), "markers": draw(ibm.marker_spec(dim, n)),
                "affine": draw(st.lists(gen.floats(-4.0, 4.0, 32), min_size=4, max_size=4)),
                "const": draw(gen.floats(-100.0, 100.0, 32)),
                "probe": draw(st.integers(0, 32))}

    return case()


def _sim_position_field(dim, shape, dxr, real_t):
    import sopht.simulator as sps

    nx = shape[-1]
    xr = float(dxr) * nx
    for _ in range(6):
        if real_t(xr / nx) == dxr:
            break
        xr = np.nextafter(xr, xr * 2 if real_t(xr / nx) < dxr else 0.0)
    sim = sps.PassiveTransportFlowSimulator(kinematic_viscosity=1e-2, grid_dim=dim, grid_size=tuple(shape), x_range=xr,
                                            real_t=real_t, num_threads=False)
    return sim.position_field, sim.dx


def _elongate(draw, shape, dim, tier):
    """with probability 1/4 stretch one axis (markers then sit at large coordinates / cell indices)"""
    if draw(st.integers(0, 3)) != 0:
        return shape
    ax = draw(st.integers(0, dim - 1))
    long_n = draw(st.integers(200 if dim == 2 else 60, (1500 if dim == 2 else 300) if tier == "thorough" else (500 if dim == 2 else 120)))
    shape = [min(n, 8) for n in shape]
    shape[ax] = long_n
    return shape


def _body(case, ctx):
    dim, kt, n = case["dim"], case["kernel"], case["n"]
    real_t = gen.np_dtype(case["dtype"])
    eps = float(np.finfo(real_t).eps)
    shape = tuple(case["shape"])
    with ctx.repo_call("constructing the grid communicator"):
        com, dxr, shift = ibm.communicator(dim, case["dx"], n, real_t, 1, kt)
    dx = float(dxr)
    pos, labels = ibm.build_markers_any(case, shape, dx)
    with ctx.repo_call("support + weights kernels"):
        nearest, support, w = ibm.compute_weights(com, pos, dim, n, real_t)
    W = w.astype(np.float64)
    vol = dx**dim
    # cell-centre minus marker coordinates are differences of numbers of size |X|: every distance carries a rounding of
    # eps64*|X|, i.e. eps64*|X|/dx in cell units - "up to rounding" includes this term (it matters on elongated grids)
    ceps = float(np.finfo(np.float64).eps) * (float(np.max(np.abs(pos))) / dx + 1.0)
    # admissibility of the computed support (documented: 4 nearest cells per direction)
    for c in range(dim):
        nc = shape[dim - 1 - c]
        if np.any(nearest[c] - 1 < 0) or np.any(nearest[c] + 2 > nc - 1):
            raise Violation(f"support of a marker >= 2 cells inside leaves the grid: nearest index {nearest[c].tolist()} along axis {c} (n={nc})")
    wmax = float(np.max(np.abs(W)))
    if np.any(W < -4 * eps * wmax) or not np.all(np.isfinite(W)):
        raise Violation(f"negative interpolation weight {float(W.min())!r} (max weight {wmax!r}, {kt}, {case['dtype']})")
    sums = W.reshape(-1, n).sum(axis=0) * vol
    if np.any(np.abs(sums - 1.0) > 16 * eps + 16 * ceps):
        m = int(np.argmax(np.abs(sums - 1.0)))
        raise Violation(f"weights of marker {m} ({labels[m]}) at {pos[:, m].tolist()} sum to {sums[m]!r} != 1 ({kt}, dx {dx}, {case['dtype']})")
    # cell coordinates of the support (float64) from the returned nearest indices
    offs = np.arange(-1, 3)
    first = []
    for c in range(dim):
        xc = (nearest[c][None, :] + offs[:, None] + 0.5) * dx  # (4, n)
        shp = [1] * dim + [n]
        shp[dim - 1 - c] = 4
        r = xc.reshape(shp) - pos[c].reshape([1] * dim + [n])
        first.append((W * r).reshape(-1, n).sum(axis=0) * vol)
        # vanishing outside the four nearest cells: every supported cell with |r| > 2dx must carry zero weight
        far = np.abs(np.broadcast_to(r, W.shape)) > 2 * dx * (1 + 4 * eps)
        if np.any(np.abs(W[far]) > 4 * eps * wmax):
            raise Violation(f"non-zero weight {float(np.max(np.abs(W[far])))!r} at a cell farther than 2dx from the marker ({kt})")
    if kt == "peskin":
        for c in range(dim):
            if np.any(np.abs(first[c]) > 16 * (eps + ceps) * dx):
                m = int(np.argmax(np.abs(first[c])))
                raise Violation(f"Peskin kernel first moment along axis {c} is {first[c][m]!r} != 0 for marker {m} ({labels[m]}) (dx {dx})")
    # spreading of a unit scalar from one marker: zero beyond two cells in any direction
    m = case["probe"] % n
    lag = np.zeros(n, dtype=real_t)
    lag[m] = 1
    eul = np.zeros(shape, dtype=real_t)
    with ctx.repo_call("spreading kernel"):
        com.lagrangian_to_eulerian_grid_interpolation_kernel(eul_grid_field=eul, lag_grid_field=lag, interp_weights=w,
                                                             nearest_eul_grid_index_to_lag_grid=nearest)
    grids = np.meshgrid(*[(np.arange(s) + 0.5) * dx for s in shape], indexing="ij")
    farmask = np.zeros(shape, dtype=bool)
    for c in range(dim):
        farmask |= np.abs(grids[dim - 1 - c] - pos[c, m]) > 2 * dx * (1 + 4 * eps)
    if np.any(np.abs(eul[farmask].astype(np.float64)) > 4 * eps * wmax):
        raise Violation(f"unit spread from marker {m} ({labels[m]}) is non-zero at a cell farther than 2dx in some direction ({kt})")
    if abs(float(eul.astype(np.float64).sum()) * vol - 1.0) > 32 * eps + 16 * ceps:
        raise Violation(f"unit spread from marker {m} integrates to {float(eul.astype(np.float64).sum()) * vol!r} != 1")
    # interpolation of constant / affine / position fields
    lagout = np.full(n, -55.5, dtype=real_t)  # re-used output buffer: interpolation overwrites whatever it holds

    def interp(field):
        with ctx.repo_call("interpolation kernel"):
            com.eulerian_to_lagrangian_grid_interpolation_kernel(lag_grid_field=lagout, eul_grid_field=field, interp_weights=w,
                                                                 nearest_eul_grid_index_to_lag_grid=nearest)
        return lagout.astype(np.float64).copy()

    cval = real_t(case["const"])
    got = interp(np.full(shape, cval, dtype=real_t))
    if np.any(np.abs(got - float(cval)) > 16 * (eps + ceps) * abs(float(cval)) + 64 * float(np.finfo(real_t).tiny)):
        raise Violation(f"constant field {float(cval)!r} interpolated to {got.tolist()} ({kt}, {case['dtype']})")
    if kt == "peskin":
        a = case["affine"]
        aff64 = a[3] + sum(a[c] * grids[dim - 1 - c] for c in range(dim))
        aff = aff64.astype(real_t)
        got = interp(aff)
        want = a[3] + sum(a[c] * pos[c] for c in range(dim))
        fmax = float(np.max(np.abs(aff64)))
        if np.any(np.abs(got - want) > 16 * (eps + ceps) * fmax + 64 * float(np.finfo(real_t).tiny)):
            mm = int(np.argmax(np.abs(got - want)))
            raise Violation(f"Peskin kernel does not reproduce an affine field at marker {mm} ({labels[mm]}): {got[mm]!r} vs {want[mm]!r}")
        with ctx.repo_call("simulator position_field"):
            pf, sdx = _sim_position_field(dim, shape, dxr, real_t)
        if sdx == dxr:
            for c in range(dim):
                got = interp(np.ascontiguousarray(pf[c]))
                fmax = float(np.max(np.abs(pf[c])))
                if np.any(np.abs(got - pos[c]) > 16 * (eps + ceps) * fmax + 64 * float(np.finfo(real_t).tiny)):
                    mm = int(np.argmax(np.abs(got - pos[c])))
                    raise Violation(f"interpolating the simulator's position_field[{c}] returns {got[mm]!r} at marker {mm} located at {pos[c, mm]!r}")
            ctx.note(labels=["position_field_checked"])
    # bookkeeping
    dropped = 0
    for c in range(dim):
        for mm in range(n):
            exact = (Fraction(float(pos[c, mm])) - Fraction(float(shift))) / Fraction(float(dxr))
            if int(nearest[c, mm]) != exact.numerator // exact.denominator:
                dropped += 1
    special = {lab for lab in labels if lab not in ("uniform",)}
    ctx.note(nontrivial=bool(special - {"same_cell", "duplicate"}),
             labels=[f"{dim}d_{kt}_{case['dtype']}", f"markers_{n}"] + (["elongated_grid"] if max(shape) >= 100 else []) + sorted(special) + (["floor_index_shifted"] if dropped else []))


PARTS = [
    Part(name="weights_and_moments", strategy=_strategy, body=_body, variants=_variants,
         examples={"quick": 640, "thorough": 16000}, shards={"quick": 8, "thorough": 16}),
]
