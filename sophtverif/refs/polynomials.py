"""Tiny exact multivariate polynomial class (Fractions) - independent of sympy and of the code under test."""

from __future__ import annotations

from fractions import Fraction
from itertools import product


def monomials(nvars: int, max_deg: int):
    out = []
    for d in range(max_deg + 1):
        for e in product(range(d + 1), repeat=nvars):
            if sum(e) == d:
                out.append(e)
    return out


MONO3_DEG3 = monomials(3, 3)  # 20 monomials in (x, y, z), graded
MONO3_DEG2 = monomials(3, 2)  # 10


class Poly:
    """Polynomial in (x, y, z) with Fraction coefficients: {(ex, ey, ez): coef}."""

    def __init__(self, terms: dict):
        self.terms = {e: Fraction(c) for e, c in terms.items() if c != 0}

    @classmethod
    def from_coefs(cls, coefs, max_deg: int, nvars: int = 3):
        """coefs: list of Fractions for the graded monomials of (x,y,z) up to degree 3 (20 entries).

        Monomials of degree > max_deg, or involving z when nvars == 2, are dropped.
        """
        terms = {}
        for e, c in zip(MONO3_DEG3, coefs):
            if sum(e) > max_deg:
                continue
            if nvars == 2 and e[2] > 0:
                continue
            terms[e] = Fraction(c)
        return cls(terms)

    def __call__(self, x, y, z=Fraction(0)):
        tot = Fraction(0)
        for (ex, ey, ez), c in self.terms.items():
            tot += c * x**ex * y**ey * z**ez
        return tot

    def d(self, var: int):
        terms = {}
        for e, c in self.terms.items():
            if e[var] == 0:
                continue
            ne = list(e)
            ne[var] -= 1
            terms[tuple(ne)] = terms.get(tuple(ne), Fraction(0)) + c * e[var]
        return Poly(terms)

    def __add__(self, o):
        t = dict(self.terms)
        for e, c in o.terms.items():
            t[e] = t.get(e, Fraction(0)) + c
        return Poly(t)

    def __sub__(self, o):
        t = dict(self.terms)
        for e, c in o.terms.items():
            t[e] = t.get(e, Fraction(0)) - c
        return Poly(t)

    def __mul__(self, o):
        if not isinstance(o, Poly):
            return Poly({e: c * Fraction(o) for e, c in self.terms.items()})
        t = {}
        for e1, c1 in self.terms.items():
            for e2, c2 in o.terms.items():
                e = tuple(a + b for a, b in zip(e1, e2))
                t[e] = t.get(e, Fraction(0)) + c1 * c2
        return Poly(t)

    def degree(self):
        return max((sum(e) for e in self.terms), default=0)

    def has_all_degree2_monomials(self, nvars: int):
        need = [e for e in MONO3_DEG2 if sum(e) == 2 and (nvars == 3 or e[2] == 0)]
        return all(e in self.terms for e in need)


def laplacian(p: Poly, nvars: int):
    out = Poly({})
    for v in range(nvars):
        out = out + p.d(v).d(v)
    return out
