"""Environment adaptation (DESIGN 1.2): keep every line of /repo executing on pystencils 2.0.

Imported (and `install()` called) before any sopht kernel module.  Two adaptations only:

* ``pystencils.CreateKernelConfig`` accepts the pystencils-1.x keyword
  ``default_number_float`` (forwarded as ``default_dtype``) and ``iteration_slice=None``.
* a fourth spatial loop counter is appended to ``pystencils.defaults.DEFAULTS`` (SophT's "vector"
  element-wise kernels declare 4-D fields).

Nothing in /repo is replaced; ``sopht.utils.get_pyst_kernel_config`` itself still runs.
"""

from __future__ import annotations

import os
import sys

_INSTALLED = False


def setup_env(cache_root: str | None = None) -> None:
    """Route JIT caches to /verif/.cache (never required, keyed by generated source)."""
    here = os.path.dirname(os.path.dirname(os.path.abspath(__file__)))
    root = cache_root or os.environ.get("SOPHTVERIF_CACHE", os.path.join(here, ".cache"))
    os.makedirs(root, exist_ok=True)
    os.environ.setdefault("XDG_CACHE_HOME", os.path.join(root, "xdg"))
    os.environ.setdefault("NUMBA_CACHE_DIR", os.path.join(root, "numba"))
    os.environ.setdefault("MPLCONFIGDIR", os.path.join(root, "mpl"))
    os.environ.setdefault("MPLBACKEND", "Agg")
    # many worker processes each run small OpenMP kernels: never busy-wait between them
    os.environ.setdefault("OMP_WAIT_POLICY", "PASSIVE")
    os.environ.setdefault("GOMP_SPINCOUNT", "0")
    for _v in ("OPENBLAS_NUM_THREADS", "MKL_NUM_THREADS", "NUMEXPR_NUM_THREADS"):
        os.environ.setdefault(_v, "1")
    for k in ("XDG_CACHE_HOME", "NUMBA_CACHE_DIR", "MPLCONFIGDIR"):
        os.makedirs(os.environ[k], exist_ok=True)


def install() -> None:
    global _INSTALLED
    if _INSTALLED:
        return
    setup_env()
    import pystencils as ps
    from pystencils.defaults import DEFAULTS
    from pystencils.sympyextensions.typed_sympy import DynamicType, TypedSymbol

    if len(DEFAULTS.spatial_counter_names) < 4:
        DEFAULTS.spatial_counter_names = (*DEFAULTS.spatial_counter_names, "ctr_3")
        DEFAULTS.spatial_counters = (
            *DEFAULTS.spatial_counters,
            TypedSymbol("ctr_3", DynamicType.INDEX_TYPE),
        )

    orig_cfg = ps.CreateKernelConfig
    if not getattr(orig_cfg, "_sophtverif_wrapped", False):

        def create_kernel_config(*args, **kwargs):
            if "default_number_float" in kwargs:
                kwargs["default_dtype"] = kwargs.pop("default_number_float")
            if "iteration_slice" in kwargs and kwargs["iteration_slice"] is None:
                kwargs.pop("iteration_slice")
            return orig_cfg(*args, **kwargs)

        create_kernel_config._sophtverif_wrapped = True  # type: ignore[attr-defined]
        create_kernel_config._orig = orig_cfg  # type: ignore[attr-defined]
        ps.CreateKernelConfig = create_kernel_config  # type: ignore[misc]
    _INSTALLED = True


def repo_root() -> str:
    """Directory of the sopht package under test (normally /repo via the editable install)."""
    import sopht

    return os.path.dirname(os.path.dirname(os.path.abspath(sopht.__file__)))


if __name__ == "__main__":
    install()
    print("compat installed; sopht from", repo_root(), file=sys.stderr)
